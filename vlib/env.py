"""Environment discipline for every /verif process.

* BLAS pinned to one thread (16 parallel workers thrash otherwise: measured 100x).
* pybads is imported from the repository working tree ($VERIF_REPO, default /repo),
  never from an installed copy: "rebuild" for a pure-Python package = a fresh
  interpreter importing the current sources.
* the guarded source hook is switched on (PYBADS_VERIF=1).
"""
import os
import sys

REPO = os.environ.get("VERIF_REPO", "/repo")
VERIF = os.path.dirname(os.path.dirname(os.path.abspath(__file__)))
PY = os.environ.get("VERIF_PY", "/venv/bin/python")

PINS = {
    "OMP_NUM_THREADS": "1",
    "OPENBLAS_NUM_THREADS": "1",
    "MKL_NUM_THREADS": "1",
    "NUMEXPR_NUM_THREADS": "1",
    "VECLIB_MAXIMUM_THREADS": "1",
    "PYBADS_VERIF": "1",
    "MPLBACKEND": "Agg",
}


def child_env(extra=None):
    env = dict(os.environ)
    env.update(PINS)
    env.setdefault("PYTHONHASHSEED", "0")
    env["PYTHONPATH"] = REPO + os.pathsep + VERIF
    env["PYTHONDONTWRITEBYTECODE"] = "1"
    env["PYTHONWARNINGS"] = "ignore"
    if extra:
        env.update(extra)
    return env


def setup_worker():
    """Call before importing numpy/pybads in a worker."""
    for k, v in PINS.items():
        os.environ[k] = v
    if REPO not in sys.path[:1]:
        sys.path.insert(0, REPO)
    import warnings

    warnings.filterwarnings("ignore")
    import logging

    import pybads  # noqa

    here = os.path.realpath(os.path.dirname(pybads.__file__))
    want = os.path.realpath(os.path.join(REPO, "pybads"))
    if here != want:
        raise RuntimeError(f"pybads imported from {here}, expected {want}")
    import pybads.bads.bads as bb

    if not getattr(bb, "_VERIF_ON", False):
        raise RuntimeError("PYBADS_VERIF hook not enabled in pybads.bads.bads")
    # pybads configures logging on stdout in the constructor; silence it (no
    # algorithmic effect).
    logging.disable(logging.CRITICAL)
    import numpy as np

    np.seterr(all="ignore")
    return pybads
