"""Small helpers shared by drivers and workers (no numpy import at module load
of the *driver* is needed, but numpy is harmless here)."""
import json
import math
import hashlib


def jsonable(o, depth=0):
    """Strict-JSON encoding (no NaN/Infinity literals) of nested python/numpy data."""
    import numpy as np

    if o is None or isinstance(o, (bool, str)):
        return o
    if isinstance(o, (int,)) and not isinstance(o, bool):
        return int(o)
    if isinstance(o, (np.integer,)):
        return int(o)
    if isinstance(o, (float, np.floating)):
        f = float(o)
        if math.isnan(f):
            return "nan"
        if math.isinf(f):
            return "inf" if f > 0 else "-inf"
        return f
    if isinstance(o, (np.bool_,)):
        return bool(o)
    if isinstance(o, complex):
        return {"re": jsonable(o.real), "im": jsonable(o.imag)}
    if isinstance(o, np.ndarray):
        if o.size > 64:
            return {"shape": list(o.shape), "head": jsonable(o.ravel()[:16].tolist())}
        return jsonable(o.tolist(), depth + 1)
    if isinstance(o, dict):
        return {str(k): jsonable(v, depth + 1) for k, v in o.items()}
    if isinstance(o, (list, tuple, set, frozenset)):
        return [jsonable(v, depth + 1) for v in o]
    return repr(o)[:200]


def unjson_float(v):
    if isinstance(v, str):
        return {"nan": math.nan, "inf": math.inf, "-inf": -math.inf}[v]
    return float(v)


def arr(v):
    """spec list (with 'inf' strings) -> float ndarray"""
    import numpy as np

    if v is None:
        return None
    return np.array([unjson_float(t) for t in v], dtype=float)


def sig(obj):
    return hashlib.sha1(json.dumps(obj, sort_keys=True, default=str).encode()).hexdigest()[:12]


def dumps(o):
    return json.dumps(jsonable(o), sort_keys=True)
