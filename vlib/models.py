"""Small executable reference models (transcribed from the property statements,
not from the code)."""
import copy
import math

import numpy as np


# --------------------------------------------------------------------------
# C12: evaluation-log reference model


class LoggerModel:
    """List-of-records model of the documented log semantics.

    record = dict(x_orig, x, y_orig, y, s, n)
    * recorded evaluation of a new point (or of any point when noise is not
      user-specified): append a record;
    * with specified noise (he) a recorded evaluation at an already logged point
      (ALL coordinates equal) is merged into that record: precision-weighted
      mean, combined SD, n += 1;
    * no-record evaluation: only n (and timing) of the LAST matching record is
      bumped; nothing else changes;
    * func_count counts evaluations through __call__, cache_count those via add.
    """

    def __init__(self, he):
        self.he = he
        self.rec = []
        self.func_count = 0
        self.cache_count = 0

    def _match(self, x):
        return [i for i, r in enumerate(self.rec) if np.array_equal(r["x"], x)]

    def observe(self, x_orig, x, y, s, record=True, via_add=False):
        """returns (value returned to caller, idx)"""
        x = np.array(x, float).ravel()
        x_orig = np.array(x_orig, float).ravel()
        if via_add:
            self.cache_count += 1
        else:
            self.func_count += 1
        if not record:
            m = self._match(x)
            if m:
                self.rec[m[-1]]["n"] += 1
                return y, m[-1]
            return y, None
        if s is not None:
            m = self._match(x)
            if len(m) > 1:
                raise ValueError("More than one match")
            if m:
                r = self.rec[m[0]]
                tn = 1.0 / r["s"] ** 2
                t1 = 1.0 / s**2
                r["y"] = (tn * r["y"] + t1 * y) / (tn + t1)
                r["s"] = 1.0 / math.sqrt(tn + t1)
                r["n"] += 1
                r.setdefault("yhist", []).append(r["y"])
                return r["y"], m[0]
        self.rec.append(dict(x_orig=x_orig, x=x, y_orig=y, y=y, s=s, n=1, yhist=[y]))
        return y, len(self.rec) - 1

    def compare(self, fl, rtol=1e-12, check_counts=True):
        """compare with a real FunctionLogger; returns list of mismatch strings"""
        out = []
        n = len(self.rec)
        if fl.Xn != n - 1:
            out.append(f"Xn={fl.Xn} model={n-1}")
        if fl.X_max_idx != n - 1:
            out.append(f"X_max_idx={fl.X_max_idx} model={n-1}")
        if check_counts:
            if fl.func_count != self.func_count:
                out.append(f"func_count={fl.func_count} model={self.func_count}")
            if fl.cache_count != self.cache_count:
                out.append(f"cache_count={fl.cache_count} model={self.cache_count}")
        m = min(n, fl.X.shape[0], max(fl.Xn + 1, 0))
        for i in range(m):
            r = self.rec[i]
            if not np.array_equal(fl.X_orig[i], r["x_orig"]):
                out.append(f"row{i}: X_orig={fl.X_orig[i].tolist()} model={r['x_orig'].tolist()}")
            if not np.array_equal(fl.X[i], r["x"]):
                out.append(f"row{i}: X={fl.X[i].tolist()} model={r['x'].tolist()}")
            if fl.Y_orig[i, 0] != r["y_orig"]:
                out.append(f"row{i}: Y_orig={fl.Y_orig[i,0]!r} model={r['y_orig']!r}")
            if not (abs(fl.Y[i, 0] - r["y"]) <= rtol * max(1.0, abs(r["y"]))):
                out.append(f"row{i}: Y={fl.Y[i,0]!r} model={r['y']!r}")
            if fl.noise_flag:
                if r["s"] is None:
                    if not np.isnan(fl.S[i, 0]):
                        out.append(f"row{i}: S={fl.S[i,0]!r} model=nan")
                elif not (abs(fl.S[i, 0] - r["s"]) <= rtol * max(1.0, abs(r["s"]))):
                    out.append(f"row{i}: S={fl.S[i,0]!r} model={r['s']!r}")
            if fl.n_evals[i, 0] != r["n"]:
                out.append(f"row{i}: n_evals={fl.n_evals[i,0]} model={r['n']}")
            if not fl.X_flag[i]:
                out.append(f"row{i}: X_flag False")
        # untouched tail
        tail = slice(max(fl.Xn + 1, 0), None)
        if fl.X.shape[0] > max(fl.Xn + 1, 0):
            if not np.all(np.isnan(fl.X[tail])) or not np.all(np.isnan(fl.X_orig[tail])):
                out.append("tail of X/X_orig not NaN")
            if not np.all(np.isnan(fl.Y[tail])) or not np.all(np.isnan(fl.Y_orig[tail])):
                out.append("tail of Y/Y_orig not NaN")
            if np.any(fl.X_flag[tail]):
                out.append("tail of X_flag not False")
            if np.any(fl.n_evals[tail] != 0):
                out.append("tail of n_evals not 0")
            if fl.noise_flag and not np.all(np.isnan(fl.S[tail])):
                out.append("tail of S not NaN")
        # array lengths agree
        L = fl.X.shape[0]
        for nm in ("X_orig", "Y_orig", "Y", "X_flag", "n_evals", "fun_eval_time"):
            if getattr(fl, nm).shape[0] != L:
                out.append(f"len({nm})={getattr(fl, nm).shape[0]} != len(X)={L}")
        if fl.noise_flag and fl.S.shape[0] != L:
            out.append(f"len(S)={fl.S.shape[0]} != len(X)={L}")
        return out


# --------------------------------------------------------------------------
# C08: validity specification (from the statement)


def validity_spec(D_hint, x0, lb, ub, plb, pub):
    """Inputs are per-field either None (absent) or 1-D float arrays.
    Returns (verdict, clause): verdict in {'invalid','valid','dontcare'}.
    Clause order follows the statement's list."""
    fields = [v for v in (x0, lb, ub, plb, pub) if v is not None]
    # no way to infer the dimension: neither x0 nor (plausible := hard defaulting) available
    eff_plb = plb if plb is not None else lb
    eff_pub = pub if pub is not None else ub
    if x0 is None and (eff_plb is None or eff_pub is None):
        return "invalid", "no-dimension"
    D = len(x0) if x0 is not None else len(eff_plb)
    for v in fields:
        if len(v) != D:
            return "invalid", "dimension-mismatch"
    LB = lb if lb is not None else np.full(D, -np.inf)
    UB = ub if ub is not None else np.full(D, np.inf)
    PLB = eff_plb
    PUB = eff_pub
    # plausible bounds absent *and* hard bounds absent, x0 given: the statement
    # lists only "plausible bounds omitted (defaulting to finite hard bounds)";
    # with nothing to default to the plausible bounds are non-finite
    if PLB is None:
        PLB = LB
    if PUB is None:
        PUB = UB
    if np.any(np.isnan(LB)) or np.any(np.isnan(UB)):
        # NaN hard bounds violate every ordering
        return "invalid", "nan-hard-bound"
    if not (np.all(np.isfinite(PLB)) and np.all(np.isfinite(PUB))):
        return "invalid", "plausible-nonfinite"
    if np.any(PLB == PUB):
        return "invalid", "plausible-equal"
    if not np.all((LB <= PLB) & (PLB < PUB) & (PUB <= UB)):
        return "invalid", "ordering"
    if x0 is not None:
        fin = np.isfinite(x0)
        if np.any(np.isinf(x0)):
            # an infinite start is "outside" any finite bound; inside infinite
            # bounds it is not a usable point -> don't care (either reject or
            # treat as absent)
            if np.any((x0 < LB) | (x0 > UB)):
                return "invalid", "x0-outside"
            return "dontcare", "x0-infinite-inside-infinite-bounds"
        if np.any((x0[fin] < LB[fin]) | (x0[fin] > UB[fin])):
            return "invalid", "x0-outside"
    if np.any(LB == UB):
        return "invalid", "hard-identical"
    half = np.isfinite(LB) != np.isfinite(UB)
    if np.any(half):
        return "invalid", "half-bounded"
    # numerically indistinguishable hard bounds: not quantified -> don't care band
    fin = np.isfinite(LB) & np.isfinite(UB)
    if np.any(fin):
        gap = (UB - LB)[fin]
        scale = np.maximum(np.abs(UB[fin]), np.abs(LB[fin]))
        scale = np.where(scale == 0, 1.0, scale)
        if np.any(gap <= 1e-9 * scale):
            return "dontcare", "hard-near-indistinguishable"
    return "valid", "ok"


# --------------------------------------------------------------------------
# C19: IterationHistory container model


class Rec(list):
    """marker: per-iteration record array (as opposed to a value stored with __setitem__)"""


class HistoryModel:
    def __init__(self, keys):
        self.keys = set(keys)
        self.d = {k: None for k in keys}

    def setitem(self, key, val):
        if key not in self.keys:
            raise ValueError
        self.d[key] = copy.deepcopy(val)

    def record(self, key, val, it):
        if it < 0:
            raise ValueError
        if key not in self.keys:
            raise ValueError
        if self.d[key] is None:
            self.d[key] = Rec([None])
        a = self.d[key]
        while len(a) <= it:
            a.append(None)
        a[it] = copy.deepcopy(val)

    def record_iteration(self, kv, it):
        if it < 0:
            raise ValueError
        for k, v in kv.items():
            if k not in self.keys:
                raise ValueError
            self.record(k, v, it)

    def delete(self, key):
        if key not in self.d:
            raise KeyError
        del self.d[key]
        self.keys.discard(key)


# --------------------------------------------------------------------------
# C20: independent reader of the option files


def read_ini_defaults(path):
    """Own tiny parser: 'name = expr' lines, '#' description lines, [section]."""
    out = []
    with open(path) as f:
        for line in f:
            s = line.strip()
            if not s or s.startswith("#") or s.startswith("["):
                continue
            if "=" not in s:
                continue
            k, v = s.split("=", 1)
            out.append((k.strip(), v.strip()))
    return out


class _Self:
    def __init__(self, d):
        self.d = d

    def get(self, k, default=None):
        return self.d.get(k, default)


def reference_options(paths, D, user):
    """Documented default for dimension D, user overrides resolved first."""
    res = dict(user or {})
    for p in paths:
        for k, expr in read_ini_defaults(p):
            if k in (user or {}):
                continue
            scope = {"np": np, "D": D, "self": _Self(res)}
            res[k] = eval(expr, scope)
    return res
