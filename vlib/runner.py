"""Driver side: shard cases over worker subprocesses, aggregate records, classify
violations against known_findings.jsonl, write evidence + replay files, print the
verdict lines and return the exit code.

exit 0  held on everything observed (known findings printed as KNOWN-FINDING lines)
exit 1  VIOLATION property=<id> replay=<path>
exit 2  INCONCLUSIVE property=<id> reason=...
"""
import importlib
import json
import os
import shutil
import subprocess
import sys
import time

from . import env
from .util import jsonable, sig

NPROC = int(os.environ.get("VERIF_NPROC", "16"))


def budget_scale():
    try:
        return float(os.environ.get("VERIF_SCALE", "1"))
    except ValueError:
        return 1.0


def load_known():
    path = os.path.join(env.VERIF, "known_findings.jsonl")
    out = []
    if os.path.exists(path):
        for line in open(path):
            line = line.strip()
            if line and not line.startswith("#"):
                out.append(json.loads(line))
    return out


def _get(d, path):
    cur = d
    for p in path.split("."):
        if isinstance(cur, dict) and p in cur:
            cur = cur[p]
        else:
            return None
    return cur


def match_known(prop, viol, rec, known):
    """a violation is 'known' iff an OPEN finding of this property has the same
    key and all its 'when' conditions hold on the record"""
    for k in known:
        if k.get("status") != "open" or k.get("property") != prop:
            continue
        if "key_prefix" in k:
            # (matching by exception type + triggering input, not by the innermost function name, so that a
            # harmless refactoring of the crashing code does not turn a listed finding into a new alarm)
            if not viol["key"].startswith(k["key_prefix"]):
                continue
        elif k.get("key") != viol["key"]:
            continue
        ok = True
        for path, want in (k.get("when") or {}).items():
            got = _get({"case": rec.get("case"), "detail": viol.get("detail"), "rec": rec}, path)
            if isinstance(want, dict) and "in" in want:
                if got not in want["in"]:
                    ok = False
            elif got != want:
                ok = False
        if ok:
            return k
    return None


def run_workers(prop, cases, timeout_case=120, wall_cap=None, nproc=None, extra_env=None):
    """returns (records, stats).  Each record has at least {'case':..., 'ci': index}."""
    nproc = min(nproc or NPROC, max(1, len(cases)))
    work = os.path.join(env.VERIF, ".work", f"{prop}-{os.getpid()}")
    shutil.rmtree(work, ignore_errors=True)
    os.makedirs(work, exist_ok=True)
    t0 = time.time()
    procs = []
    for w in range(nproc):
        shard = [(i, c) for i, c in enumerate(cases) if i % nproc == w]
        fin = os.path.join(work, f"in{w}.json")
        fout = os.path.join(work, f"out{w}.jsonl")
        with open(fin, "w") as f:
            json.dump(shard, f)
        ferr = open(os.path.join(work, f"err{w}.txt"), "w")
        p = subprocess.Popen(
            [env.PY, "-m", "vlib.worker", prop, fin, fout, str(timeout_case)],
            cwd=env.VERIF,
            env=env.child_env(extra_env),
            stdout=ferr,
            stderr=subprocess.STDOUT,
        )
        procs.append((p, fout, ferr, len(shard)))
    deadline = None if wall_cap is None else t0 + wall_cap
    killed = 0
    for p, fout, ferr, n in procs:
        try:
            rem = None if deadline is None else max(1.0, deadline - time.time())
            p.wait(timeout=rem)
        except subprocess.TimeoutExpired:
            p.kill()
            p.wait()
            killed += 1
        ferr.close()
    records = []
    worker_errors = []
    for w, (p, fout, ferr, n) in enumerate(procs):
        got = 0
        if os.path.exists(fout):
            for line in open(fout):
                line = line.strip()
                if not line:
                    continue
                try:
                    records.append(json.loads(line))
                    got += 1
                except Exception:
                    pass
        if p.returncode not in (0,) or got < n:
            try:
                tail = open(os.path.join(work, f"err{w}.txt")).read()[-1500:]
            except Exception:
                tail = ""
            worker_errors.append({"worker": w, "rc": p.returncode, "got": got, "expected": n, "tail": tail})
    records.sort(key=lambda r: r.get("ci", 0))
    stats = {"n_cases": len(cases), "n_records": len(records), "workers": nproc, "workers_killed": killed,
             "worker_errors": worker_errors, "wall_s": time.time() - t0}
    shutil.rmtree(work, ignore_errors=True)
    return records, stats


def write_replay(prop, rec, viol):
    d = os.path.join(env.VERIF, "replays")
    os.makedirs(d, exist_ok=True)
    name = f"{prop}-{sig([rec.get('case'), viol.get('key')])}.json"
    path = os.path.join(d, name)
    with open(path, "w") as f:
        json.dump(jsonable({"property": prop, "case": rec.get("case"), "violation": viol,
                            "record": {k: v for k, v in rec.items() if k not in ("case",)}}), f, indent=1)
    return path


def finish(prop, tier, seed, level, records, stats, summary, t0, assumptions=None):
    """summary: dict with keys
         evaluations, distinct_nontrivial, rule, samples, extra (dict), inconclusive (str|None),
         min_nontrivial (int)
    """
    known = load_known()
    new_viol = []
    known_hits = {}
    n_viol_total = 0
    for rec in records:
        for v in rec.get("viol", []) or []:
            if not v["key"].startswith(prop + "/"):
                continue
            n_viol_total += 1
            k = match_known(prop, v, rec, known)
            if k is not None:
                e = known_hits.setdefault(k["key"] + "|" + json.dumps(k.get("when") or {}, sort_keys=True), {"finding": k, "n": 0, "example": None})
                e["n"] += rec.get("viol_count", {}).get(v["key"], 1) if e["example"] is None or True else 1
                if e["example"] is None:
                    e["example"] = {"case": rec.get("case_brief") or rec.get("case"), "detail": v.get("detail")}
            else:
                new_viol.append((rec, v))
    for v in summary.get("panel_viol") or []:
        if v["key"].startswith(prop + "/"):
            n_viol_total += 1
            prec = {"case": {"panel": True}, "viol_count": {}}
            k = match_known(prop, v, prec, known)
            if k is None:
                new_viol.append((prec, v))
    oracle_errors = [r for r in records if r.get("oracle_error") or r.get("worker_exception")]
    timeouts = [r for r in records if r.get("timeout")]
    cov = {
        "evaluations": int(summary["evaluations"]),
        "distinct_nontrivial": int(summary["distinct_nontrivial"]),
        "rule": summary["rule"],
        "samples": jsonable(summary["samples"])[:8],
        "exhaustive": bool(summary.get("exhaustive", False)),
        "cases_run": len(records),
        "cases_planned": stats["n_cases"],
        "cases_timed_out": len(timeouts),
        "oracle_errors": len(oracle_errors),
        "workers": stats["workers"],
        "worker_errors": jsonable(stats["worker_errors"])[:3],
        "known_findings_seen": {k: v["n"] for k, v in known_hits.items()},
    }
    cov.update(jsonable(summary.get("extra") or {}))
    inconclusive = summary.get("inconclusive")
    struct = {}
    for r in records:
        for k, v in (r.get("cnt") or {}).items():
            if k.startswith("STRUCT."):
                struct[k[7:]] = struct.get(k[7:], 0) + v
    cov["seam_structure_mismatches"] = struct
    pre = {}
    for r in records:
        for k, v in (r.get("cnt") or {}).items():
            if k.startswith("prelude."):
                pre[k[8:]] = pre.get(k[8:], 0) + v
    if pre:
        # runs preceded, in the same process, by an unmonitored sibling optimisation sharing the target / constraint objects
        cov["process_history_preludes"] = pre
    if struct and not inconclusive:
        notes = next((r.get("struct_notes") for r in records if r.get("struct_notes")), None)
        inconclusive = ("the code is structured differently from what the instrumentation assumes (a seam was not observed where expected); "
                        "no verdict on the affected oracles: " + json.dumps(struct) + " e.g. " + json.dumps(notes)[:300])
    if not inconclusive:
        if stats["worker_errors"]:
            inconclusive = f"{len(stats['worker_errors'])} worker(s) died or lost cases"
        elif oracle_errors:
            inconclusive = f"{len(oracle_errors)} case(s) hit a framework error: " + str((oracle_errors[0].get("oracle_error") or oracle_errors[0].get("worker_exception")))[-300:].replace("\n", " | ")
        elif len(timeouts) > max(2, 0.05 * max(1, len(records))):
            inconclusive = f"{len(timeouts)} cases hit the wall-clock watchdog"
        elif cov["distinct_nontrivial"] < summary.get("min_nontrivial", 2):
            inconclusive = f"only {cov['distinct_nontrivial']} distinct non-trivial cases (minimum {summary.get('min_nontrivial', 2)})"
    ev = {
        "property_id": prop,
        "tier": tier,
        "seed": int(seed),
        "level": level,
        "coverage": cov,
        "assumptions": assumptions or [],
        "wall_s": round(time.time() - t0, 2),
        "violations": len(new_viol),
        "verdict": "violated" if new_viol else ("inconclusive" if inconclusive else "held-on-observed"),
    }
    os.makedirs(os.path.join(env.VERIF, "evidence"), exist_ok=True)
    evpath = os.path.join(env.VERIF, "evidence", f"{prop}.json")
    with open(evpath, "w") as f:
        json.dump(ev, f, indent=1, sort_keys=True)
    try:
        import jsonschema

        sp = os.path.join(env.VERIF, "tools", "EVIDENCE.schema.json")
        schema = json.load(open(sp)) if os.path.exists(sp) else None
        if schema is not None and not inconclusive:
            try:
                jsonschema.validate(ev, schema)
            except jsonschema.ValidationError as e:
                inconclusive = "evidence file does not validate against the schema (framework bug): " + e.message[:200]
    except ImportError:
        pass
    seen_keys = set()
    for k, e in known_hits.items():
        f_ = e["finding"]
        seen_keys.add(id(f_))
        print(f"KNOWN-FINDING: property={prop} {f_['key']} — {f_.get('what','')} (seen {e['n']}x this run)")
    for f_ in known:
        if f_.get("status") == "open" and f_.get("property") == prop and id(f_) not in seen_keys:
            print(f"KNOWN-FINDING: property={prop} {f_['key']} — {f_.get('what','')} (listed; not reproduced by this run's workload)")
    print(f"[{prop} {tier} seed={seed}] cases={len(records)}/{stats['n_cases']} nontrivial={cov['distinct_nontrivial']} "
          f"violations(new)={len(new_viol)} known={sum(e['n'] for e in known_hits.values())} wall={ev['wall_s']}s")
    if new_viol:
        seen = set()
        for rec, v in new_viol:
            if v["key"] in seen and len(seen) >= 1 and len(seen) > 5:
                continue
            path = write_replay(prop, rec, v)
            if v["key"] not in seen:
                print(f"VIOLATION property={prop} replay={path}")
                print(f"  key={v['key']} detail={json.dumps(v.get('detail'))[:400]}")
            seen.add(v["key"])
        return 1
    if inconclusive:
        print(f"INCONCLUSIVE property={prop} reason={inconclusive}")
        return 2
    return 0


def main(prop, tier, seed, replay=None):
    mod = importlib.import_module(f"vlib.props.{prop.lower()}")
    t0 = time.time()
    if replay:
        data = json.load(open(replay))
        if isinstance(data.get("case"), dict) and data["case"].get("panel"):
            # population-level violation: the witness is the whole seeded panel -> re-run it
            replay = None
            seed = int(data.get("record", {}).get("seed", seed))
            cases = mod.cases(tier, seed)
            kw = dict(getattr(mod, "RUN_KW", {}).get(tier, {}))
            records, stats = run_workers(prop, cases, **kw)
            return finish(prop, tier, seed, mod.LEVEL, records, stats, mod.summarize(records, tier, seed), t0, getattr(mod, "ASSUMPTIONS", None))
        env.setup_worker()
        rec = mod.run_case(data["case"])
        print(json.dumps(jsonable({k: rec.get(k) for k in ("status", "exc", "viol", "viol_count")}), indent=1)[:6000])
        bad = [v for v in rec.get("viol", []) if v["key"].startswith(prop + "/")]
        known = load_known()
        rec["case"] = data["case"]
        new = [v for v in bad if match_known(prop, v, rec, known) is None]
        if new:
            print(f"VIOLATION property={prop} replay={replay}")
            return 1
        return 0
    cases = mod.cases(tier, seed)
    kw = getattr(mod, "RUN_KW", {})
    kw = dict(kw.get(tier, kw.get("quick", {})))
    records, stats = run_workers(prop, cases, **kw)
    summary = mod.summarize(records, tier, seed)
    return finish(prop, tier, seed, mod.LEVEL, records, stats, summary, t0, getattr(mod, "ASSUMPTIONS", None))
