"""C15 — the GP surrogate is always conditioned on real, nearby observations."""
import numpy as np

from .. import gen
from . import common as C

LEVEL = "exploration"
RULE = ("noise modes det/auto/declared/he x D 1..4 x budget 60..200 (several refits) x tight boxes (repeated points) x seeds. "
        "Seam monitors with the evaluation log in hand at the same instant: every (x, y[, s2]) row handed to GP.fit, returned by the "
        "nearest-neighbour selector, present in the GP after local_gp_fitting / add_and_update_gp must be a logged pair (bitwise x, "
        "value equal to a value the row holds or held, noise = logged SD squared); the neighbour set must be sorted by the "
        "length-scaled distance and its distance multiset must equal the k smallest over the whole log, size within "
        "[min(n, n_train_min), max(n_train_max, n_train_min)]; acquisition z must equal mu - sqrt(beta_t)*sd for the prediction "
        "it used with beta_t recomputed independently; after every local fit the surrogate must hold EXACTLY the selected neighbour set "
        "(same rows, same order); 30% of the runs additionally inject 1-3 consecutive LinAlgErrors into GP.fit so that the retry/pruning "
        "paths of the robust refit run while the seams are watched. Non-trivial: run had >= 2 hyper-parameter refits (and a non-constant SD "
        "function in he mode); distinct = distinct (mode, D, geometry, landscape, #refits bucket)")
RUN_KW = {"quick": dict(timeout_case=200, wall_cap=800), "thorough": dict(timeout_case=500, wall_cap=3300)}
ASSUMPTIONS = ["rows appended right after a specified-noise merge may carry the SD the target reported for that evaluation (counted, not judged)"]


def cases(tier, seed):
    n = C.n_cases(tier, 80, 1500)
    out = []
    for i in range(n):
        rng = gen.rng_for(seed, "C15", i)
        D = int(rng.choice([1, 2, 3, 4], p=[0.25, 0.35, 0.25, 0.15]))
        mode = str(rng.choice(gen.MODES, p=[0.3, 0.15, 0.15, 0.05, 0.35]))
        opts = {}
        if rng.random() < 0.3:
            opts["tol_mesh"] = float(rng.choice([0.1, 0.03]))
        if rng.random() < 0.2:
            opts["n_train_max"] = int(rng.choice([20, 30]))
            opts["n_train_min"] = int(rng.choice([5, 10]))
            opts["buffer_ntrain"] = int(rng.choice([0, 5, 100]))
        if rng.random() < 0.2:
            opts["gp_radius"] = float(rng.choice([0.5, 1.0]))
        if rng.random() < 0.3:
            opts["cache_size"] = int(rng.choice([3, 10, 40]))  # the evaluation log is re-allocated during the run
        spec = gen.make_spec(rng, D=D, geom=str(rng.choice(["lin", "tight", "log", "unb", "offcentre"], p=[0.3, 0.3, 0.15, 0.1, 0.15])),
                             x0mode=str(rng.choice(["in", "none", "onlb"], p=[0.6, 0.2, 0.2])),
                             land=str(rng.choice(["quad", "sphere", "l1", "rosen", "stair", "bowl4"])), where=str(rng.choice(["in", "onb", "out"], p=[0.5, 0.3, 0.2])),
                             mode=mode, options=opts, max_fun_evals=int(rng.choice([60, 100, 150, 200])),
                             # supplied SDs of extreme small magnitude (objective in tiny units): the variance handed to the
                             # GP must still be the logged SD squared (1e-20 is not "about machine epsilon")
                             sigma=(float(rng.choice([1e-10, 1e-9, 3e-9])) if (mode == "he" and rng.random() < 0.3) else None))
        case = {"spec": spec}
        if rng.random() < 0.3:
            # stimulate the retry paths of the robust refit: 2-3 consecutive LinAlgErrors at some fit
            k = int(rng.integers(1, 12))
            case["gp_fault"] = list(range(k, k + int(rng.choice([1, 2, 3]))))
        out.append(case)
    # long noisy runs with a SMALL buffer_ntrain: the size floor n_train_max - buffer_ntrain (190 for noisy targets, where
    # n_train_max is raised to 200) only binds once that many points are logged
    for j in range(4 if tier == "quick" else 24):
        rng = gen.rng_for(seed, "C15", 700000 + j)
        spec = gen.make_spec(rng, D=2, geom=str(rng.choice(["lin", "tight"])), x0mode="in", land=str(rng.choice(["rosen", "needle", "stair"])), where="in",
                             mode=str(rng.choice(["declared", "he", "auto"])), options={"buffer_ntrain": int(rng.choice([10, 30, 50]))}, max_fun_evals=int(rng.choice([230, 260])),
                             sigma=float(rng.choice([0.3, 1.0])))
        out.append({"spec": spec})
    # (the selection metric only matters with >= 2 coordinates of different fitted length scale; several refits needed)
    out += C.option_variation_slice("C15", tier, seed, gen_kw=dict(Dchoices=(2, 3), lands=("quad", "rosen", "bowl4"), budgets=(90, 120)))
    # a user-supplied exploration schedule: option search_acq_fcn = ('acq_LCB', schedule(t, number of variables))
    for j_ in range(6 if tier == "quick" else 60):
        rng = gen.rng_for(seed, "C15", 880000 + j_)
        spec = gen.make_spec(rng, D=int(rng.choice([2, 3, 4])), geom=str(rng.choice(["lin", "log", "unb"])), x0mode="in", land=str(rng.choice(["quad", "rosen", "l1"])),
                             mode=str(rng.choice(["det", "det", "he"])), max_fun_evals=int(rng.choice([60, 90])))
        spec["acq_schedule"] = [float(rng.choice([0.5, 1.0, 2.0])), float(rng.choice([0.25, 0.5]))]
        out.append({"spec": spec})
    return out


def run_case(case):
    rec = C.run_monitored(case, {"C15"}, gp_fault=case.get("gp_fault"))
    rec["gp_fault"] = case.get("gp_fault")
    return rec


def summarize(records, tier, seed):
    nt = set()
    for r in records:
        c = r.get("cnt") or {}
        if c.get("C15.local_refits", 0) >= 2:
            s = r["case"]["spec"]
            nt.add((s["noise"]["mode"], s["D"], s["geom"], s["target"]["kind"], min(c.get("C15.local_refits", 0) // 3, 4)))
    cnt = C.count_sum(records, "C15.")
    extra = {"events_checked": cnt, "status": C.status_hist(records), "aborts_by_other_defects": C.other_property_aborts(records, "C15"),
             "runs_with_injected_fit_failures": sum(1 for r in records if r.get("gp_fault")),
             "injected_fit_failures_delivered": C.count_sum(records, "C16.faults_delivered")}
    inconc = None
    for need in ("C15.rows_checked", "C15.neighbor_calls", "C15.acq_rows_checked", "C15.noise_rows_checked", "C15.add_exits"):
        if cnt.get(need, 0) == 0:
            inconc = f"seam never reached: {need}"
    if not inconc and C.aborted_fraction(records) > 0.2:
        inconc = "more than 20% of runs aborted by defects of other properties"
    return dict(evaluations=len(records), distinct_nontrivial=len(nt), rule=RULE,
                samples=C.pick_samples(records, lambda r: (r.get("cnt") or {}).get("C15.local_refits", 0) >= 2), extra=extra, inconclusive=inconc, min_nontrivial=8)
