"""Shared pieces of the run-based property checks."""
import os

import numpy as np

from .. import gen
from ..runner import budget_scale


def n_cases(tier, quick, thorough):
    n = quick if tier == "quick" else thorough
    return max(4, int(n * budget_scale()))


def want_prelude(case):
    """about one run in six gets process history: an unmonitored sibling optimisation sharing the callables runs first"""
    pl = case.get("prelude")
    if pl is None:
        sd = case["spec"].get("options", {}).get("random_seed")
        pl = isinstance(sd, int) and sd % 6 == 0 and case["spec"]["target"].get("kind") != "scripted"
    return bool(pl)


def run_monitored(case, oracles, **kw):
    from ..runmon import RunMonitor

    if "prelude" not in kw:
        kw["prelude"] = want_prelude(case) and not kw.get("filter_script")
    m = RunMonitor(case["spec"], oracles=oracles, **kw)
    rec = m.run()
    return slim(rec, case)


KEEP = ("status", "exc", "viol", "viol_count", "cnt", "flags", "ncalls", "stop", "n_polls", "n_searches", "n_loops",
        "N_init", "budget", "message", "func_count", "iterations", "target_type", "oracle_error", "nfs", "n_final",
        "n_gp_fits", "fault", "max_consec_noeval", "n_history", "fval", "mesh_size", "gp_fits", "second_status", "second_exc", "second_calls", "struct_notes")


def slim(rec, case):
    out = {k: rec.get(k) for k in KEEP if k in rec}
    out["case_brief"] = gen.brief(case["spec"]) if "spec" in case else None
    return out


def sig_of(case, *extra):
    b = case["spec"]
    return (b["D"], b["geom"], b["x0mode"], b["target"]["kind"], b["target"].get("where"), b["noise"]["mode"], b["cons"]["kind"]) + tuple(extra)


def aborted_fraction(records):
    n = max(1, len(records))
    return sum(1 for r in records if r.get("status") in ("exception",)) / n


def count_sum(records, prefix=""):
    tot = {}
    for r in records:
        for k, v in (r.get("cnt") or {}).items():
            if k.startswith(prefix):
                tot[k] = tot.get(k, 0) + v
    return dict(sorted(tot.items()))


def status_hist(records):
    h = {}
    for r in records:
        s = r.get("status") or ("timeout" if r.get("timeout") else "framework-error")
        h[s] = h.get(s, 0) + 1
    return h


def pick_samples(records, pred=None, n=4):
    out = []
    for r in records:
        if pred is None or pred(r):
            out.append({"case": r.get("case_brief"), "observed": {k: r.get(k) for k in ("status", "ncalls", "stop", "n_polls", "n_searches", "flags") if k in r}})
            if len(out) >= n:
                break
    if not out and records:
        r = records[0]
        out.append({"case": r.get("case_brief") or r.get("case"), "observed": {"status": r.get("status")}})
    return out


def other_property_aborts(records, prop):
    """exceptions escaping optimize() belong to C09; count them per signature"""
    h = {}
    for r in records:
        if r.get("status") == "exception" and r.get("exc"):
            e = r["exc"]
            k = f"{e.get('type')}@{(e.get('inner') or ['?','?'])[0]}:{(e.get('inner') or ['?','?'])[1]}"
            h[k] = h.get(k, 0) + 1
    return h


# --------------------------------------------------------------------------
# option variation shared by the run-based checks: the C09 family "one documented option at a time moved off its
# default" is split between the properties, each judging its share with its own oracle

OPTVAR_PROPS = ["C01", "C03", "C04", "C05", "C13", "C14", "C15", "C17", "C18", "C19"]
# options that CHANGE what the property's statement fixes (not varied for that property)
OPTVAR_EXCLUDE = {
    "C04": {"sloppy_improvement", "improvement_quantile"},  # the statement is about the default incumbent policy
    "C13": {"poll_mesh_multiplier", "improvement_quantile", "max_poll_grid_number"},  # "doubles" / "halves": multiplier 2, default cap
    "C15": {"poll_mesh_multiplier"},
    "C03": set(), "C01": set(), "C05": set(), "C14": {"poll_mesh_multiplier"}, "C17": set(), "C18": set(), "C19": set(),
}


def option_variation_slice(prop, tier, seed, modes=None, gen_kw=None, **extra):
    """quick: EVERY variation (boolean flips, explicit values, halved / doubled numbers) in one allowed mode;
    thorough: every variation in every allowed mode"""
    from . import c09

    cs = c09.option_variation_cases("thorough", seed, **(gen_kw or {}))  # the full cross product (4 modes per variation); sliced here
    hard_cs = []
    if modes is None or any(m_ != "det" for m_ in modes):
        # each variation once more on a rare-path problem (noisy target under a measure-zero / thin-band constraint)
        hard_cs = [c for c in c09.option_variation_cases("thorough", seed, hard=True) if c.get("hard")]
    i = OPTVAR_PROPS.index(prop)
    n = len(OPTVAR_PROPS)
    allowed = list(modes) if modes is not None else ["det", "auto", "he", "declared"]
    out = []
    byopt = {}
    for c in cs:
        byopt.setdefault(tuple(c["option"]), []).append(c)
    for j, (opt, group) in enumerate(sorted(byopt.items())):
        if opt[0] in OPTVAR_EXCLUDE.get(prop, ()):
            continue
        group = [c for c in group if c["spec"]["noise"]["mode"] in allowed]
        if not group:
            continue
        # every variation for every property: one allowed mode each (rotating with seed and property) at the quick tier,
        # every allowed mode at the thorough tier
        if tier != "quick":
            take = group
        elif opt[1] in ("flip", "set"):
            # booleans / explicit values: the deterministic mode (when allowed) AND one noisy mode
            dets = [c for c in group if c["spec"]["noise"]["mode"] == "det"]
            nois = [c for c in group if c["spec"]["noise"]["mode"] != "det"]
            take = dets[:1] + ([nois[(j + seed + i) % len(nois)]] if nois else [])
        else:
            take = [group[(j + seed + i) % len(group)]]
        for c in take:
            out.append(dict({"spec": c["spec"], "optvar": c["option"]}, **extra))
    seen = set()
    for c in hard_cs:
        opt = tuple(c["option"])
        if opt[0] in OPTVAR_EXCLUDE.get(prop, ()) or opt in seen:
            continue
        if modes is not None and c["spec"]["noise"]["mode"] not in modes:
            continue
        seen.add(opt)
        out.append(dict({"spec": c["spec"], "optvar": c["option"], "hard": True}, **extra))
    return out
