"""C01 — hard box bounds are never left (target, constraint, result, log)."""
import numpy as np

from .. import gen
from . import common as C

LEVEL = "exploration"
RULE = ("[inputs also in other valid spellings: 1-D arrays, lists, float32 start] " +
        "seeded product sampling of bound geometry x start point x landscape/optimum location x noise mode x constraint x "
        "budget; every target/constraint argument, the result and every logged row is compared EXACTLY with the user's "
        "box (and the transformed box / inverse map for logged rows); in 20% of the cases optimize() is called a SECOND time on the same object "
        "with the boundary oracles still armed. A run is non-trivial if the bound mechanism engaged: "
        "a candidate filter received an out-of-box row, or a point with a coordinate exactly on a hard bound was evaluated, "
        "or a coordinate is log-transformed; distinct = distinct (D, geometry, start, landscape, optimum location, mode, "
        "constraint) signatures among non-trivial runs")
RUN_KW = {"quick": dict(timeout_case=120, wall_cap=600), "thorough": dict(timeout_case=240, wall_cap=3000)}
ASSUMPTIONS = ["boundary wrappers see every call pybads makes to the user's target/constraint callables",
               "exact comparison is legitimate because pybads clamps/drops candidates; a 1-ulp excess is a violation"]

GEOMW = {"lin": 1, "tight": 2, "log": 2.5, "logedge": 1.5, "mixedlog": 2, "unb": 1.5, "mixedunb": 1, "wide": 1, "offcentre": 1.5,
         "logdecade": 3.5, "nicelin": 2.5, "offset": 1.5}


def cases(tier, seed):
    n = C.n_cases(tier, 160, 3200)
    out = []
    g, w = zip(*GEOMW.items())
    w = np.array(w) / sum(w)
    for i in range(n):
        rng = gen.rng_for(seed, "C01", i)
        geom = str(rng.choice(g, p=w))
        where = str(rng.choice(["in", "onb", "out"], p=[0.3, 0.3, 0.4]))
        x0mode = str(rng.choice(gen.X0MODES, p=[0.15, 0.2, 0.05, 0.2, 0.15, 0.15, 0.1]))
        if rng.random() < 0.15:
            x0mode = str(rng.choice(gen.X0MODES_EXTRA))
        cons = str(rng.choice(["none", "halfspace", "ball", "corner"], p=[0.6, 0.15, 0.15, 0.1]))
        if cons != "none" and x0mode in ("none",):
            x0mode = "in"
        land = str(rng.choice(["quad", "sphere", "l1", "rosen", "stair", "ramp", "maxkink", "bowl4"]))
        mode = str(rng.choice(gen.MODES, p=[0.4, 0.15, 0.15, 0.1, 0.2]))
        opts = {}
        if rng.random() < 0.2:
            opts["nonlinear_scaling"] = False
        if rng.random() < 0.15:
            opts["force_poll_mesh"] = True
        if rng.random() < 0.2:
            opts["search_n_try"] = int(rng.choice([0, 1]))
        if rng.random() < 0.2:
            opts["search_grid_number"] = int(rng.choice([4, 6, 8]))  # coarser search mesh: gridisation moves points further
        D = int(rng.choice([1, 2, 3, 4], p=[0.25, 0.4, 0.25, 0.1]))
        if i % 10 == 7:
            # one variable + a constraint removing most of the initial design + a coarse final mesh: poll directions are scaled
            # by a GP refitted on two training points (degenerate empirical priors -> non-finite scale -> non-finite candidates)
            D, x0mode, mode = 1, "in", str(rng.choice(["det", "det", "auto", "he"]))
            cons = str(rng.choice(["annulus", "ball", "halfspace"], p=[0.5, 0.25, 0.25]))
            geom = str(rng.choice(["lin", "offcentre", "tight", "wide"]))
            land = str(rng.choice(["sphere", "quad", "l1"]))
            opts["tol_mesh"] = float(rng.choice([0.25, 0.1]))
        spec = gen.make_spec(rng, D=D, geom=geom, x0mode=x0mode, land=land,
                             where=where, mode=mode, cons=cons, options=opts, max_fun_evals=int(rng.choice([30, 50, 80, 100])))
        if i % 8 == 5:
            spec["arg_spelling"] = ["1d", "list", "x0f32", "x0f32"][(i // 8) % 4]  # other valid spellings of the same problem
        out.append({"spec": spec, "second_run": bool(rng.random() < 0.2)})
    # float32 start (a float32 pipeline) x a monotone target whose solution sits exactly ON a hard bound: the returned x must
    # be inside the box as the user defined it (float64 bounds), not merely inside after rounding to single precision
    for j in range(12 if tier == "quick" else 120):
        rng = gen.rng_for(seed, "C01", 400000 + j)
        spec = gen.make_spec(rng, D=int(rng.choice([1, 2, 3])), geom=str(rng.choice(["lin", "offcentre", "wide", "log"])), x0mode="in", land=str(rng.choice(["ramp", "l1", "quad"])),
                             where="out", mode=str(rng.choice(["det", "det", "he"])), max_fun_evals=int(rng.choice([60, 90])))
        spec["arg_spelling"] = "x0f32"
        out.append({"spec": spec, "second_run": False})
    out += C.option_variation_slice("C01", tier, seed)
    return out


def run_case(case):
    rec = C.run_monitored(case, {"C01"}, second_run=bool(case.get("second_run")))
    if rec.get("status") in ("ok", "exception"):
        try:
            _boundary_stress(case, rec)
        except Exception as e:  # framework error, loud
            import traceback

            rec["oracle_error"] = "boundary stress: " + "".join(traceback.format_exception(type(e), e, e.__traceback__))[-800:]
    return rec


def _boundary_stress(case, rec):
    """Hostile use of the real evaluation path: a freshly constructed BADS for the same problem is asked
    (through its own function logger, i.e. the path every evaluation takes) to evaluate internal points ON
    the transformed hard bounds, on the mesh-rounded search bounds, and 1 ulp / 1e-9 outside the transformed
    box - what rounding in the candidate arithmetic can produce.  The user-space argument of the target must
    still be inside the hard box (clamp of the inverse transform)."""
    import numpy as np
    from pybads import BADS

    P = gen.Problem(case["spec"])
    seen = []

    def f(x):
        seen.append(np.array(x, float).ravel().copy())
        return (0.0, 1.0) if P.mode == "he" else 0.0

    try:
        b = BADS(f, non_box_cons=None, options=dict(P.options), **P.bads_args())
    except ValueError:
        return
    vt = b.var_transf
    lbt, ubt = vt.lb.ravel(), vt.ub.ravel()
    D = P.D
    pts = []
    mid = np.clip(np.zeros(D), np.where(np.isfinite(lbt), lbt, -1), np.where(np.isfinite(ubt), ubt, 1))
    for base, sgn in ((lbt, -1.0), (ubt, 1.0)):
        fin = np.isfinite(base)
        if not fin.any():
            continue
        for mk in (lambda v: v, lambda v: np.nextafter(v, sgn * np.inf), lambda v: v + sgn * 1e-9 * np.maximum(1.0, np.abs(v))):
            full = np.where(fin, mk(np.where(fin, base, 0.0)), mid)
            pts.append(full)
            for i in np.flatnonzero(fin):
                one = mid.copy()
                one[i] = full[i]
                pts.append(one)
    for key in ("lb_search", "ub_search"):
        v = np.asarray(b.optim_state[key], float).ravel()
        pts.append(np.where(np.isfinite(v), v, mid))
    n = 0
    for u in pts:
        k0 = len(seen)
        b.function_logger(np.array(u, float))
        n += 1
        x = seen[k0]
        if not (np.all(x >= P.lb) and np.all(x <= P.ub) and np.all(np.isfinite(x))):
            rec["viol"].append({"key": "C01/target-outside-box", "detail": {"via": "evaluation path fed a point on/just outside the transformed bound", "u": u, "x": x, "lb": P.lb, "ub": P.ub,
                                                                            "lb_t": lbt, "ub_t": ubt}})
            break
    fl = b.function_logger
    m = fl.Xn + 1
    if m and not (np.all(fl.X_orig[:m] >= P.lb) and np.all(fl.X_orig[:m] <= P.ub)):
        rec["viol"].append({"key": "C01/logged-original-outside-box", "detail": {"via": "boundary stress"}})
    rec["cnt"]["C01.boundary_stress_points"] = n


def summarize(records, tier, seed):
    ok = [r for r in records if r.get("status") in ("ok", "exception", "nonprogress")]
    nt = set()
    for r in ok:
        f = set(r.get("flags") or [])
        if f & {"filter-oob-input", "on-bound-eval", "log-coordinate"}:
            nt.add(C.sig_of(r["case"]))
    cnt = C.count_sum(records, "C01.")
    extra = {"events_checked": cnt, "status": C.status_hist(records), "aborts_by_other_defects": C.other_property_aborts(records, "C01"),
             "runs_with_oob_filter_input": sum(1 for r in ok if "filter-oob-input" in (r.get("flags") or [])),
             "runs_with_on_bound_evaluation": sum(1 for r in ok if "on-bound-eval" in (r.get("flags") or [])),
             "runs_with_log_coordinate": sum(1 for r in ok if "log-coordinate" in (r.get("flags") or [])),
             "filter_rows_out_of_box_seen": C.count_sum(records, "filter_rows_oob"),
             "second_optimize_on_same_object": {"runs": sum(1 for r in records if r.get("second_status")), "completed": sum(1 for r in records if r.get("second_status") == "ok"),
                                                "target_calls": sum(r.get("second_calls") or 0 for r in records),
                                                "note": "boundary oracles stay armed during a second optimize() on the same object; its own failures (unchanged tree: KeyError('ntrain') in declared-noise modes) are outside the stated properties and not judged"}}
    inconc = None
    if cnt.get("C01.target_points", 0) == 0:
        inconc = "target wrapper never reached"
    elif C.aborted_fraction(records) > 0.2:
        inconc = "more than 20% of runs aborted by defects of other properties"
    return dict(evaluations=len(records), distinct_nontrivial=len(nt), rule=RULE, samples=C.pick_samples(ok, lambda r: "filter-oob-input" in (r.get("flags") or [])),
                extra=extra, inconclusive=inconc, min_nontrivial=10)
