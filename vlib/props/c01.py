"""C01 — hard box bounds are never left (target, constraint, result, log)."""
import numpy as np

from .. import gen
from . import common as C

LEVEL = "exploration"
RULE = ("seeded product sampling of bound geometry x start point x landscape/optimum location x noise mode x constraint x "
        "budget; every target/constraint argument, the result and every logged row is compared EXACTLY with the user's "
        "box (and the transformed box / inverse map for logged rows). A run is non-trivial if the bound mechanism engaged: "
        "a candidate filter received an out-of-box row, or a point with a coordinate exactly on a hard bound was evaluated, "
        "or a coordinate is log-transformed; distinct = distinct (D, geometry, start, landscape, optimum location, mode, "
        "constraint) signatures among non-trivial runs")
RUN_KW = {"quick": dict(timeout_case=120, wall_cap=600), "thorough": dict(timeout_case=240, wall_cap=3000)}
ASSUMPTIONS = ["boundary wrappers see every call pybads makes to the user's target/constraint callables",
               "exact comparison is legitimate because pybads clamps/drops candidates; a 1-ulp excess is a violation"]

GEOMW = {"lin": 1, "tight": 2, "log": 2.5, "logedge": 1.5, "mixedlog": 2, "unb": 1.5, "mixedunb": 1, "wide": 1, "offcentre": 1.5}


def cases(tier, seed):
    n = C.n_cases(tier, 160, 3200)
    out = []
    g, w = zip(*GEOMW.items())
    w = np.array(w) / sum(w)
    for i in range(n):
        rng = gen.rng_for(seed, "C01", i)
        geom = str(rng.choice(g, p=w))
        where = str(rng.choice(["in", "onb", "out"], p=[0.3, 0.3, 0.4]))
        x0mode = str(rng.choice(gen.X0MODES, p=[0.15, 0.2, 0.05, 0.2, 0.15, 0.15, 0.1]))
        cons = str(rng.choice(["none", "halfspace", "ball", "corner"], p=[0.6, 0.15, 0.15, 0.1]))
        if cons != "none" and x0mode in ("none",):
            x0mode = "in"
        land = str(rng.choice(["quad", "sphere", "l1", "rosen", "stair", "ramp", "maxkink", "bowl4"]))
        mode = str(rng.choice(gen.MODES, p=[0.4, 0.15, 0.15, 0.1, 0.2]))
        opts = {}
        if rng.random() < 0.2:
            opts["nonlinear_scaling"] = False
        if rng.random() < 0.15:
            opts["force_poll_mesh"] = True
        if rng.random() < 0.2:
            opts["search_n_try"] = int(rng.choice([0, 1]))
        spec = gen.make_spec(rng, D=int(rng.choice([1, 2, 3, 4], p=[0.25, 0.4, 0.25, 0.1])), geom=geom, x0mode=x0mode, land=land,
                             where=where, mode=mode, cons=cons, options=opts, max_fun_evals=int(rng.choice([30, 50, 80, 100])))
        out.append({"spec": spec})
    return out


def run_case(case):
    return C.run_monitored(case, {"C01"})


def summarize(records, tier, seed):
    ok = [r for r in records if r.get("status") in ("ok", "exception", "nonprogress")]
    nt = set()
    for r in ok:
        f = set(r.get("flags") or [])
        if f & {"filter-oob-input", "on-bound-eval", "log-coordinate"}:
            nt.add(C.sig_of(r["case"]))
    cnt = C.count_sum(records, "C01.")
    extra = {"events_checked": cnt, "status": C.status_hist(records), "aborts_by_other_defects": C.other_property_aborts(records, "C01"),
             "runs_with_oob_filter_input": sum(1 for r in ok if "filter-oob-input" in (r.get("flags") or [])),
             "runs_with_on_bound_evaluation": sum(1 for r in ok if "on-bound-eval" in (r.get("flags") or [])),
             "runs_with_log_coordinate": sum(1 for r in ok if "log-coordinate" in (r.get("flags") or [])),
             "filter_rows_out_of_box_seen": C.count_sum(records, "filter_rows_oob")}
    inconc = None
    if cnt.get("C01.target_points", 0) == 0:
        inconc = "target wrapper never reached"
    elif C.aborted_fraction(records) > 0.2:
        inconc = "more than 20% of runs aborted by defects of other properties"
    return dict(evaluations=len(records), distinct_nontrivial=len(nt), rule=RULE, samples=C.pick_samples(ok, lambda r: "filter-oob-input" in (r.get("flags") or [])),
                extra=extra, inconclusive=inconc, min_nontrivial=10)
