"""C08 — problem definitions validated exactly."""
import itertools

import numpy as np

from .. import gen
from . import common as C
from ..models import validity_spec

LEVEL = "exploration"
RULE = ("(a) D=1 lattice: per-field value classes {absent, -inf, +inf, NaN, -3, -1, 0, 1, 1+2^-52, 2, 5} for (x0, lb, ub, plb, pub): "
        "11^5 = 161051 constructor calls (thorough: all; quick: a seeded 1/8 sample) compared with an executable validity "
        "specification transcribed from the statement; (b) random product sampling for D=2,3 with per-coordinate classes incl. "
        "'one coordinate fully bounded, another fully unbounded', half-bounded coordinates, rounding-distance values; (c) spelling "
        "matrix on valid problems (Python scalar for D=1, list, tuple, int-dtype, (D,), (1,D); x0 given/omitted; plausible bounds "
        "given/omitted; log geometries): normalised attributes and 15-evaluation traces must be identical. Refuting events: spec "
        "invalid but accepted / non-ValueError; spec valid but rejected; any target call during construction; accepted problem "
        "violating lb<=plb<pub<=ub or x0 not strictly inside finite bounds. Hard-bound gaps <= 1e-9*scale and infinite x0 inside "
        "infinite bounds are a don't-care band (either outcome accepted, invariants still enforced). distinct_nontrivial = distinct "
        "(spec verdict, first failing clause | accepted geometry class, D) cells + spelling pairs compared")
RUN_KW = {"quick": dict(timeout_case=400, wall_cap=800), "thorough": dict(timeout_case=3000, wall_cap=3400)}
ASSUMPTIONS = ["magnitudes <= 1e6: the quantifier is about orderings/special values (transformer self-test has an absolute tolerance, DESIGN §7)"]

VALS = [None, -np.inf, np.inf, np.nan, -3.0, -1.0, 0.0, 1.0, 1.0 + 2.0 ** -52, 2.0, 5.0]


def _f(x):
    _f.calls += 1
    return 0.0


_f.calls = 0


def judge(x0, lb, ub, plb, pub, spell="2d", options=None):
    """returns (cell, violation-or-None, detail)"""
    from pybads import BADS

    def conv(v):
        if v is None:
            return None
        return np.array([v], float) if np.ndim(v) == 1 else v

    def sp(v):
        if v is None:
            return None
        return np.atleast_2d(np.asarray(v, float))

    verdict, clause = validity_spec(None, *(None if v is None else np.asarray(v, float).ravel() for v in (x0, lb, ub, plb, pub)))
    _f.calls = 0
    exc = None
    b = None
    try:
        b = BADS(_f, sp(x0), sp(lb), sp(ub), sp(plb), sp(pub), options=dict({"display": "off", "random_seed": 3}, **(options or {})))
    except Exception as e:
        exc = e
    calls = _f.calls
    if calls:
        return (verdict, clause), "C08/target-called-during-construction", {"calls": calls}
    if exc is not None and not isinstance(exc, ValueError):
        if verdict == "dontcare" or True:
            return (verdict, clause), "C08/non-ValueError-from-constructor", {"exc": repr(exc)[:200], "spec": [verdict, clause]}
    if verdict == "invalid":
        if exc is None:
            return (verdict, clause), "C08/invalid-definition-accepted:" + clause, {"spec": [verdict, clause]}
        return (verdict, clause), None, None
    if exc is not None:
        if verdict == "dontcare":
            return (verdict, clause), None, None
        mech = _reject_mechanism(x0, lb, ub, plb, pub)
        return (verdict, clause), "C08/valid-definition-rejected:" + mech, {"exc": str(exc)[:160].replace("\n", " ")}
    # accepted: normalisation invariants
    os_ = b.optim_state
    LB, UB, PLB, PUB = (np.asarray(os_[k], float).ravel() for k in ("lb_orig", "ub_orig", "plb_orig", "pub_orig"))
    X0 = np.asarray(b.x0, float).ravel()
    bad = []
    if not np.all((LB <= PLB) & (PLB < PUB) & (PUB <= UB)):
        bad.append("ordering")
    if np.any(np.isnan(np.concatenate([LB, UB, PLB, PUB, X0]))):
        bad.append("nan")
    fin = np.isfinite(LB)
    if verdict != "dontcare" and (np.any(X0[fin] <= LB[fin]) or np.any(X0[np.isfinite(UB)] >= UB[np.isfinite(UB)]) or not np.all(np.isfinite(X0))):
        # (inside the don't-care band of near-indistinguishable hard bounds no float may lie strictly between them)
        bad.append("x0-not-strictly-inside")
    if lb is not None and not np.array_equal(LB, np.asarray(lb, float).ravel()):
        bad.append("hard-lower-bound-changed")
    if ub is not None and not np.array_equal(UB, np.asarray(ub, float).ravel()):
        bad.append("hard-upper-bound-changed")
    if bad:
        return (verdict, "accepted"), "C08/accepted-problem-not-normalised:" + bad[0], {"bad": bad, "lb": LB, "plb": PLB, "pub": PUB, "ub": UB, "x0": X0}
    return (verdict, "accepted:" + ("unb" if not np.any(np.isfinite(LB)) else "mixed" if not np.all(np.isfinite(LB)) else "bounded") + (":log" if np.any(b.var_transf.apply_log_t) else "")), None, None


def _reject_mechanism(x0, lb, ub, plb, pub):
    """discriminates the one known mechanism: the plausible box lies inside the 0.1%
    'effective bound' margin next to a hard bound, so moving the plausible bounds inside
    inverts their order"""
    try:
        D = max(len(np.ravel(v)) for v in (x0, lb, ub, plb, pub) if v is not None)
        LB = np.ravel(lb).astype(float) if lb is not None else np.full(D, -np.inf)
        UB = np.ravel(ub).astype(float) if ub is not None else np.full(D, np.inf)
        PLB = np.ravel(plb).astype(float) if plb is not None else LB
        PUB = np.ravel(pub).astype(float) if pub is not None else UB
        rng = np.where(np.isfinite(UB - LB), UB - LB, 1e3)
        lo = np.where(np.isfinite(LB), LB + 1e-3 * rng, LB)
        hi = np.where(np.isfinite(UB), UB - 1e-3 * rng, UB)
        lo = np.where(np.abs(LB) <= np.finfo(float).tiny, 1e-3 * rng, lo)
        hi = np.where(np.abs(UB) <= np.finfo(float).tiny, -1e-3 * rng, hi)
        if np.any(np.maximum(PLB, lo) >= np.minimum(PUB, hi)):
            return "plausible-box-within-bound-margin"
        if np.any(lo >= hi):
            return "hard-bounds-margin-collapse"
    except Exception:
        pass
    return "other"


def lattice_part(part, nparts, sample_mod, seed):
    combos = itertools.product(range(len(VALS)), repeat=5)
    cells = {}
    viol = {}
    n = 0
    rs = np.random.RandomState(seed)
    for idx, c in enumerate(combos):
        if idx % nparts != part:
            continue
        if sample_mod > 1 and rs.randint(sample_mod) != 0:
            continue
        vals = [VALS[i] for i in c]
        args = [None if v is None else np.array([v]) for v in vals]
        cell, key, det = judge(*args)
        n += 1
        cells[str(cell)] = cells.get(str(cell), 0) + 1
        if key:
            viol.setdefault(key, dict(det or {}, x0=vals[0], lb=vals[1], ub=vals[2], plb=vals[3], pub=vals[4]))
            viol[key]["_n"] = viol[key].get("_n", 0) + 1
    return n, cells, viol


COORD = ["bounded", "unb", "halfL", "halfU", "tight", "log", "eqpl", "swapped", "nanpl", "near", "x0out", "plout"]


def random_part(n, seed):
    rs = np.random.RandomState(seed)
    cells = {}
    viol = {}
    for _ in range(n):
        D = int(rs.choice([2, 3]))
        lb = np.empty(D)
        ub = np.empty(D)
        plb = np.empty(D)
        pub = np.empty(D)
        x0 = np.empty(D)
        kinds = []
        for i in range(D):
            k = str(rs.choice(COORD, p=[0.3, 0.2, 0.05, 0.05, 0.08, 0.08, 0.04, 0.04, 0.03, 0.05, 0.04, 0.04]))
            kinds.append(k)
            a = float(np.round(rs.uniform(-5, 0), 2))
            w = float(np.round(rs.uniform(1, 8), 2))
            lb[i], ub[i], plb[i], pub[i] = a, a + w, a + 0.25 * w, a + 0.75 * w
            x0[i] = a + 0.5 * w
            if k == "unb":
                lb[i], ub[i] = -np.inf, np.inf
            elif k == "halfL":
                ub[i] = np.inf
            elif k == "halfU":
                lb[i] = -np.inf
            elif k == "tight":
                plb[i], pub[i] = lb[i], ub[i]
            elif k == "log":
                lb[i], plb[i], pub[i], ub[i] = 0.01, 0.1, 10.0 ** rs.randint(1, 4), 1e4
                x0[i] = 1.0
            elif k == "eqpl":
                pub[i] = plb[i]
            elif k == "swapped":
                plb[i], pub[i] = pub[i], plb[i]
            elif k == "nanpl":
                plb[i] = np.nan
            elif k == "near":
                ub[i] = np.nextafter(lb[i], np.inf) if rs.rand() < 0.5 else lb[i] * (1 + 1e-13) + 1e-13
                plb[i], pub[i] = lb[i], ub[i]
                x0[i] = lb[i]
            elif k == "x0out":
                x0[i] = ub[i] + 1.0 if np.isfinite(ub[i]) else x0[i]
            elif k == "plout":
                plb[i] = lb[i] - 1.0
        drop = rs.rand(5) < np.array([0.25, 0.0, 0.0, 0.2, 0.2])
        if rs.rand() < 0.1:
            drop[1] = drop[2] = True
            lb[:] = -np.inf
            ub[:] = np.inf
        args = [None if d else v for d, v in zip(drop, (x0, lb, ub, plb, pub))]
        if rs.rand() < 0.05:
            j = rs.randint(1, 5)
            if args[j] is not None:
                args[j] = args[j][:-1]  # dimension mismatch
                kinds.append("dim-mismatch")
        cell, key, det = judge(*args)
        cells[str((D,) + cell)] = cells.get(str((D,) + cell), 0) + 1
        if key:
            viol.setdefault(key, dict(det or {}, x0=args[0], lb=args[1], ub=args[2], plb=args[3], pub=args[4], kinds=kinds))
            viol[key]["_n"] = viol[key].get("_n", 0) + 1
    return n, cells, viol


def coarse_part(n, seed):
    """valid definitions under COARSE search meshes (documented options search_grid_number / init_mesh_size_integer), with
    starting-point coordinates a hair inside the effective bounds on OPPOSITE sides: snapping to the mesh pushes some
    coordinates below the lower and others above the upper bound; the definition is valid and must be accepted"""
    rs = np.random.RandomState(seed)
    cells, viol = {}, {}
    for _ in range(n):
        D = int(rs.choice([2, 3, 4]))
        a = np.round(rs.uniform(-5, 5, D), 1)
        w = np.round(rs.uniform(2, 20, D), 1)
        lb, ub = a, a + w
        f1, f2 = rs.uniform(0.05, 0.35, D), rs.uniform(0.4, 0.8, D)
        plb, pub = a + f1 * w, a + f2 * w
        side = rs.rand(D) < 0.5
        side[0], side[1] = True, False
        eps_ = rs.uniform(1.05e-3, 3e-3, D)
        x0 = np.where(side, lb + eps_ * w, ub - eps_ * w)
        opts = {"search_grid_number": int(rs.choice([2, 3, 4, 6]))} if rs.rand() < 0.6 else {"init_mesh_size_integer": int(rs.choice([2, 3]))}
        cell, key, det = judge(x0, lb, ub, plb, pub, options=opts)
        cells[str((D, "coarse") + cell)] = cells.get(str((D, "coarse") + cell), 0) + 1
        if key:
            viol.setdefault(key, dict(det or {}, x0=x0, lb=lb, ub=ub, plb=plb, pub=pub, options=opts))
            viol[key]["_n"] = viol[key].get("_n", 0) + 1
    return n, cells, viol


def spelling_part(n, seed):
    from pybads import BADS

    rs = np.random.RandomState(seed)
    viol = {}
    pairs = 0

    def run(x0, lb, ub, plb, pub, conv):
        calls = []

        def f(x):
            calls.append(np.array(x, float).ravel().copy())
            return float(np.sum((np.asarray(x, float) - 0.3) ** 2))

        c = lambda v: None if v is None else conv(v)
        b = BADS(f, c(x0), c(lb), c(ub), c(plb), c(pub), options={"display": "off", "random_seed": 11, "max_fun_evals": 15})
        attrs = [np.asarray(b.x0, float).ravel()] + [np.asarray(b.optim_state[k], float).ravel() for k in ("lb_orig", "ub_orig", "plb_orig", "pub_orig")] + [np.asarray(b.var_transf.apply_log_t).ravel().astype(float)]
        b.optimize()
        return attrs, calls

    convs = {"2d": lambda v: np.array([v], float), "1d": lambda v: np.array(v, float), "list": lambda v: [float(t) for t in v],
             "tuple": lambda v: tuple(float(t) for t in v), "int": lambda v: np.array(v).astype(int), "int-list": lambda v: [int(t) for t in v],
             "scalar": lambda v: float(v[0]), "int-scalar": lambda v: int(v[0])}
    for _ in range(n):
        D = int(rs.choice([1, 2, 3]))
        kind = str(rs.choice(["lin", "log", "unb", "mixed"]))
        if kind == "lin":
            lb = -rs.randint(2, 9, D).astype(float)
            ub = rs.randint(2, 9, D).astype(float)
            plb, pub = lb + 1, ub - 1
        elif kind == "log":
            lb = rs.randint(1, 3, D).astype(float)
            plb = lb + rs.randint(0, 3, D)
            pub = plb * rs.randint(10, 40, D)
            ub = pub + rs.randint(0, 100, D)
        elif kind == "unb":
            lb = np.full(D, -np.inf)
            ub = np.full(D, np.inf)
            plb = -rs.randint(1, 5, D).astype(float)
            pub = rs.randint(1, 5, D).astype(float)
        else:
            lb = -rs.randint(2, 9, D).astype(float)
            ub = rs.randint(2, 9, D).astype(float)
            plb, pub = lb + 1, ub - 1
            lb[0], ub[0] = -np.inf, np.inf
        x0 = np.round((plb + pub) / 2) if kind != "log" else plb + 1
        # starts ON a finite hard bound (the constructor moves its own copy inside): integer spellings must
        # be normalised exactly like float ones
        where0 = rs.choice(["mid", "onlb", "onub", "mixed"], p=[0.4, 0.2, 0.2, 0.2])
        if where0 != "mid":
            for i_ in range(D):
                if where0 == "onlb" or (where0 == "mixed" and i_ % 2 == 0):
                    x0[i_] = lb[i_] if np.isfinite(lb[i_]) else x0[i_]
                else:
                    x0[i_] = ub[i_] if np.isfinite(ub[i_]) else x0[i_]
        give_x0 = rs.rand() < 0.6
        give_pl = rs.rand() < 0.7 or kind in ("unb", "mixed")
        base_args = (x0 if give_x0 else None, lb, ub, plb if give_pl else None, pub if give_pl else None)
        try:
            ref = run(*base_args, convs["2d"])
        except Exception as e:
            viol.setdefault("C08/valid-definition-rejected:spelling-reference", {"exc": repr(e)[:200], "args": base_args})
            continue
        names = ["1d", "list", "tuple"]
        if not np.any(np.isinf(np.concatenate([lb, ub]))):
            names += ["int", "int-list"]
        if D == 1:
            names += ["scalar"] + (["int-scalar"] if not np.any(np.isinf(np.concatenate([lb, ub]))) else [])
        for nm in names:
            pairs += 1
            try:
                got = run(*base_args, convs[nm])
            except Exception as e:
                viol.setdefault("C08/spelling-rejected:" + type(e).__name__, {"spelling": nm, "exc": repr(e)[:200], "kind": kind, "D": D, "x0_given": give_x0, "plausible_given": give_pl,
                                                                               "lb": lb, "ub": ub, "plb": plb, "pub": pub})
                continue
            if not all(np.array_equal(a, b_, equal_nan=True) for a, b_ in zip(ref[0], got[0])):
                viol.setdefault("C08/spelling-defines-different-problem", {"spelling": nm, "kind": kind, "D": D, "ref": ref[0], "got": got[0]})
            elif len(ref[1]) != len(got[1]) or not all(np.array_equal(a, b_) for a, b_ in zip(ref[1], got[1])):
                viol.setdefault("C08/spelling-produces-different-run", {"spelling": nm, "kind": kind, "D": D, "n_ref": len(ref[1]), "n_got": len(got[1])})
    return n, pairs, viol


def cases(tier, seed):
    out = []
    nparts = 32 if tier == "quick" else 64
    for p in range(nparts):
        out.append({"kind": "lattice", "part": p, "nparts": nparts, "sample_mod": 8 if tier == "quick" else 1, "seed": seed * 100 + p})
    out.append({"kind": "probe"})
    for k in range(16):
        out.append({"kind": "random", "n": 40 if tier == "quick" else 1300, "seed": seed * 100 + k})
    for k in range(16):
        out.append({"kind": "spelling", "n": 6 if tier == "quick" else 60, "seed": seed * 100 + k})
    for k in range(8):
        out.append({"kind": "coarse", "n": 40 if tier == "quick" else 800, "seed": seed * 100 + 50 + k})
    return out


def run_case(case):
    k = case["kind"]
    if k == "probe":
        # deterministic probes: the open known finding (plausible box inside the bound margin) and a few pinned cells
        cells, viol, n = {}, {}, 0
        for args in ((None, [1.0], [2.0], [1.0], [1.0 + 2.0 ** -52]), ([0.001], [0.0], [10.0], [0.0], [0.005]), (None, [-3.0], [5.0], None, None),
                     ([0.0], [-np.inf], [np.inf], [-1.0], [1.0]), ([6.0], [-3.0], [5.0], None, None), (None, [-3.0], [np.inf], [-1.0], [1.0])):
            cell, key, det = judge(*[None if a is None else np.array(a) for a in args])
            n += 1
            cells[str(cell)] = cells.get(str(cell), 0) + 1
            if key:
                viol.setdefault(key, dict(det or {}, x0=args[0], lb=args[1], ub=args[2], plb=args[3], pub=args[4]))
                viol[key]["_n"] = viol[key].get("_n", 0) + 1
        cnt = {"C08.probe_constructor_calls": n}
    elif k == "lattice":
        n, cells, viol = lattice_part(case["part"], case["nparts"], case["sample_mod"], case["seed"])
        cnt = {"C08.lattice_constructor_calls": n}
    elif k == "random":
        n, cells, viol = random_part(case["n"], case["seed"])
        cnt = {"C08.random_constructor_calls": n}
    elif k == "coarse":
        n, cells, viol = coarse_part(case["n"], case["seed"])
        cnt = {"C08.coarse_mesh_constructor_calls": n}
    else:
        n, pairs, viol = spelling_part(case["n"], case["seed"])
        cells = {}
        cnt = {"C08.spelling_problems": n, "C08.spelling_pairs": pairs}
    return {"status": k, "cells": cells, "cnt": cnt, "viol_count": {a: b.get("_n", 1) for a, b in viol.items()},
            "viol": [{"key": a, "detail": {x: y for x, y in b.items() if x != "_n"}} for a, b in viol.items()]}


def summarize(records, tier, seed):
    cells = {}
    for r in records:
        for k, v in (r.get("cells") or {}).items():
            cells[k] = cells.get(k, 0) + v
    cnt = C.count_sum(records, "C08.")
    inconc = None
    for need in ("C08.lattice_constructor_calls", "C08.random_constructor_calls", "C08.spelling_pairs"):
        if cnt.get(need, 0) == 0:
            inconc = f"part never ran: {need}"
    full = tier == "thorough" and cnt.get("C08.lattice_constructor_calls", 0) == 11 ** 5
    top = dict(sorted(cells.items(), key=lambda kv: -kv[1])[:40])
    return dict(evaluations=int(sum(v for k, v in cnt.items() if k.endswith("calls")) + cnt.get("C08.spelling_pairs", 0)),
                distinct_nontrivial=int(len(cells) + cnt.get("C08.spelling_pairs", 0)), rule=RULE,
                samples=[{"cell(spec verdict, clause|geometry)": k, "count": v} for k, v in list(top.items())[:6]],
                extra={"events_checked": cnt, "cell_table": top, "d1_lattice_enumerated_completely": bool(full)}, inconclusive=inconc, min_nontrivial=12,
                exhaustive=False)
