"""C13 — mesh doubles after a successful poll (up to the cap), shrinks after a failure."""
import numpy as np

from .. import gen
from . import common as C

LEVEL = "exploration"
RULE = ("aimed workload (steep L1, Rosenbrock, staircase, ramp targets; search_n_try in {default,0,1}; accelerate_mesh on/off; "
        "complete_poll on/off; tol_mesh coarse..fine; all noise modes; plus 20% runs whose target values follow a per-phase OUTCOME "
        "SCRIPT over {success, incremental, fail, tie}: long success streaks at the mesh cap, alternations, all-fail). Hooked-state monitor at every poll-step entry/exit, every "
        "search-step exit and every loop end: mesh == 2**k <= 1; success recomputed INDEPENDENTLY (deterministic modes) from the "
        "boundary values fval_before - y_j and the documented forcing function max(tol_improvement*mesh^1.5, tol_fun); "
        "success => k' = min(k+1, cap), else k-1 or k-2 (acceleration + recomputed stall); k unchanged outside polls; search mesh <= "
        "poll mesh; tol_mesh message => mesh < tol_mesh. Non-trivial: run shows >= 2 of {doubling, success at cap, halving, "
        "quartering}; distinct = distinct (transition kinds, mode, landscape, options signature, D)")
RUN_KW = {"quick": dict(timeout_case=150, wall_cap=700), "thorough": dict(timeout_case=400, wall_cap=3300)}
ASSUMPTIONS = ["in noisy modes 'success' is judged on the improvement values observed at the _eval_improvement_ seam (weaker; stated)",
               "default search_mesh_expand = 0 (the mesh may legitimately grow in the search branch otherwise)"]


def cases(tier, seed):
    n = C.n_cases(tier, 140, 2800)
    out = []
    for i in range(n):
        rng = gen.rng_for(seed, "C13", i)
        D = int(rng.choice([1, 2, 3, 4], p=[0.2, 0.45, 0.25, 0.1]))
        land = str(rng.choice(["l1", "rosen", "stair", "ramp", "quad", "maxkink", "needle"], p=[0.25, 0.2, 0.15, 0.15, 0.1, 0.1, 0.05]))
        opts = {"search_n_try": int(rng.choice([0, 0, 1]))} if rng.random() < 0.6 else {}
        if rng.random() < 0.35:
            opts["accelerate_mesh"] = False
        if rng.random() < 0.35:
            opts["complete_poll"] = True
        if rng.random() < 0.3:
            opts["tol_mesh"] = float(rng.choice([0.1, 1e-2, 1e-4]))
        if rng.random() < 0.15:
            opts["init_mesh_size_integer"] = int(rng.choice([-1, -3]))
        if rng.random() < 0.1:
            opts["max_poll_grid_number"] = 1
        mode = str(rng.choice(gen.MODES, p=[0.55, 0.1, 0.1, 0.05, 0.2]))
        spec = gen.make_spec(rng, D=D, geom=str(rng.choice(["lin", "tight", "log", "unb", "offcentre"])),
                             x0mode=str(rng.choice(["in", "onlb", "outpl"], p=[0.6, 0.2, 0.2])), land=land,
                             where=str(rng.choice(["in", "onb", "out"], p=[0.5, 0.2, 0.3])), mode=mode, options=opts,
                             max_fun_evals=int(rng.choice([80, 120, 200])))
        if rng.random() < 0.2 and mode == "det":
            pats = ["S", "F", "SF", "SSSF", "IF", "I", "FFFS", "T", "ST", "SIF", "SSSSSSSF"]
            spec["target"] = {"kind": "scripted", "c": spec["target"]["c"], "where": "in",
                              "search": pats[int(rng.integers(len(pats)))], "poll": pats[int(rng.integers(len(pats)))], "other": "F"}
        out.append({"spec": spec})
    # tol_mesh given as an EXACT power of two (what users write: 2**-k, 0.125, 1/64): the conversion of the tolerance onto
    # the mesh lattice must not be one step off; every k appears, with and without mesh acceleration
    g = 0
    for k in range(1, 15 if tier == "quick" else 27):
        for acc in (True, False):
            rng = gen.rng_for(seed, "C13", 500000 + g)
            g += 1
            spec = gen.make_spec(rng, D=int(rng.choice([1, 2])), geom="lin", x0mode="in", land=str(rng.choice(["l1", "ramp", "stair"])), where=str(rng.choice(["in", "out"])),
                                 mode="det", options={"tol_mesh": 2.0 ** -k, "accelerate_mesh": acc, "tol_stall_iters": 60, "search_n_try": int(rng.choice([0, 1]))},
                                 max_fun_evals=400)
            out.append({"spec": spec})
    # mesh rules show after many polls: longer runs, and steep non-smooth cones so that the mesh is refined far down
    for c in C.option_variation_slice("C13", tier, seed, gen_kw=dict(lands=("l1", "l1", "rosen"), budgets=(170,))):
        if c["optvar"][0] not in ("tol_fun", "tol_stall_iters"):
            c["spec"]["options"]["tol_stall_iters"] = 40  # no early stall stop: the mesh is refined until tol_mesh or the budget
        out.append(c)
    return out


def run_case(case):
    return C.run_monitored(case, {"C13"})


KINDS = ("C13.doubling", "C13.success_at_cap", "C13.halving", "C13.quartering")


def summarize(records, tier, seed):
    nt = set()
    for r in records:
        c = r.get("cnt") or {}
        kinds = tuple(k for k in KINDS if c.get(k))
        if len(kinds) >= 2:
            s = r["case"]["spec"]
            nt.add((kinds, s["noise"]["mode"], s["target"]["kind"], s["D"], tuple(sorted(k for k in s["options"] if k not in ("display", "random_seed", "max_fun_evals")))))
    cnt = C.count_sum(records, "C13.")
    extra = {"events_checked": cnt, "mesh_transitions": {k[4:]: cnt.get(k, 0) for k in KINDS}, "status": C.status_hist(records),
             "polls_judged_with_independent_improvement": sum(1 for r in records for _ in [0] if r.get("status") == "ok" and r["case"]["spec"]["noise"]["mode"] == "det"),
             "aborts_by_other_defects": C.other_property_aborts(records, "C13")}
    inconc = None
    if cnt.get("C13.polls_judged", 0) == 0:
        inconc = "no poll step judged"
    elif cnt.get("C13.pairing_failed", 0) > 0.05 * cnt.get("C13.polls_judged", 1):
        inconc = "improvement/evaluation pairing failed too often"
    elif C.aborted_fraction(records) > 0.2:
        inconc = "more than 20% of runs aborted by defects of other properties"
    return dict(evaluations=len(records), distinct_nontrivial=len(nt), rule=RULE,
                samples=C.pick_samples(records, lambda r: (r.get("cnt") or {}).get("C13.doubling")), extra=extra, inconclusive=inconc, min_nontrivial=8)
