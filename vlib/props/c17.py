"""C17 — candidate filtering: in-box, feasible, pairwise distinct, not already evaluated."""
import itertools

import numpy as np

from .. import gen
from . import common as C

LEVEL = "exploration"
RULE = ("(a) EXHAUSTIVE small lattices: the real contraints_check is called with a real FunctionLogger pre-loaded with a chosen log: "
        "D=1 lattice {-2..2}: all candidate sequences of length <= 3 x all 32 logs x 3 boxes x proj in {T,F} x constraint in "
        "{none, x>0 infeasible}; D=2 lattice {-1,0,1}^2: all sequences of length <= 2 x sampled logs x boxes x proj x constraint. "
        "Each output is judged against the four documented clauses (in-box exact, feasible, pairwise distinct, not coinciding with a "
        "logged point within tol_mesh/2) + subset-of-(clamped)-input. (b) in full runs the same sub-oracles run at EVERY filter "
        "exit of every call site (init, ES generations, search, poll), plus the consequence: a deterministic target is never "
        "evaluated twice at one point except the single x0 repeat, every repeat being attributed to the filter output that carried "
        "it. distinct_nontrivial = lattice calls whose input mixes >= 2 kinds of bad row (out-of-box, duplicate, already evaluated, "
        "infeasible) + runs whose filters saw out-of-box AND already-evaluated rows")
RUN_KW = {"quick": dict(timeout_case=300, wall_cap=800), "thorough": dict(timeout_case=900, wall_cap=3300)}
ASSUMPTIONS = ["'complete' (every admissible fresh candidate survives) is recorded, not judged: the statement constrains only what IS in the output"]


def _mk_logger(D, log_points):
    from pybads.function_logger import FunctionLogger
    from pybads.variable_transformer import VariableTransformer

    vt = VariableTransformer(D, np.full((1, D), -4.0), np.full((1, D), 4.0), np.full((1, D), -1.0), np.full((1, D), 1.0))
    fl = FunctionLogger(lambda x: 0.0, D, False, 0, cache_size=4, variable_transformer=vt)
    for p in log_points:
        fl(np.array(p, float))
    return fl


def lattice_cell(cell):
    from pybads.function_logger import contraints_check

    D = cell["D"]
    lo, hi = cell["box"]
    lb = np.full((1, D), float(lo))
    ub = np.full((1, D), float(hi))
    proj = cell["proj"]
    cons = (lambda X: X[:, 0] > 0) if cell["cons"] else None
    tol_mesh = 2.0 ** -4
    if D == 1:
        pts = [(v,) for v in (-2, -1, 0, 1, 2)]
        logs = [list(c) for r in range(len(pts) + 1) for c in itertools.combinations(pts, r)]
        maxlen = 3
    else:
        pts = [(a, b) for a in (-1, 0, 1) for b in (-1, 0, 1)]
        rs = np.random.RandomState(cell["seed"])
        logs = [[]] + [[pts[j] for j in np.flatnonzero(rs.rand(9) < rs.choice([0.2, 0.5, 0.8]))] for _ in range(cell["nlogs"])]
        maxlen = 2
    seqs = [()] + [s for L in range(1, maxlen + 1) for s in itertools.product(pts, repeat=L)]
    ncalls = 0
    counts = {"in-box": 0, "feasible": 0, "distinct": 0, "fresh": 0, "subset": 0, "complete": 0}
    viol = {}
    nontriv = 0
    for log in logs:
        fl = _mk_logger(D, log)
        logset = set(log)
        for seq in seqs:
            U = np.array(seq, float).reshape(len(seq), D)
            try:
                out = contraints_check(U.copy(), lb, ub, tol_mesh, fl, proj, cons)
            except Exception as e:
                viol.setdefault("C17/lattice-filter-raised", {"exc": repr(e), "U": U.tolist(), "log": log})
                continue
            ncalls += 1
            out_rows = [tuple(r) for r in np.asarray(out).reshape(-1, D).tolist()]
            clamped = [tuple(min(max(v, lo), hi) for v in r) for r in seq] if proj else [r for r in seq if all(lo <= v <= hi for v in r)]
            kinds = 0
            kinds += any(not all(lo <= v <= hi for v in r) for r in seq)
            kinds += len(set(clamped)) < len(clamped)
            kinds += any(r in logset for r in clamped)
            kinds += bool(cons) and any(r[0] > 0 for r in clamped)
            if kinds >= 2:
                nontriv += 1
            ctx = {"U": [list(r) for r in seq], "log": [list(r) for r in log], "box": [lo, hi], "proj": proj, "cons": bool(cons), "out": [list(r) for r in out_rows]}
            if any(not all(lo <= v <= hi for v in r) for r in out_rows):
                counts["in-box"] += 1
                viol.setdefault("C17/filter-output-outside-box", ctx)
            if cons and any(r[0] > 0 for r in out_rows):
                counts["feasible"] += 1
                viol.setdefault("C17/filter-output-infeasible", ctx)
            if len(set(out_rows)) != len(out_rows):
                counts["distinct"] += 1
                viol.setdefault("C17/filter-output-duplicates", ctx)
            if any(r in logset for r in out_rows):
                counts["fresh"] += 1
                viol.setdefault("C17/fresh-not-filtered", ctx)
            if any(r not in clamped for r in out_rows):
                counts["subset"] += 1
                viol.setdefault("C17/filter-output-not-subset", ctx)
            admissible = {r for r in clamped if r not in logset and not (cons and r[0] > 0)}
            if not admissible <= set(out_rows):
                counts["complete"] += 1
    return ncalls, counts, viol, nontriv


def cases(tier, seed):
    out = []
    # (the last three boxes have a bound a hair - far less than the de-duplication tolerance - INSIDE a lattice point: a
    # candidate on that lattice point is outside the box by 5e-8 .. 3e-7)
    for box in ([-2, 2], [-1, 1], [0, 2], [-2, 2 - 1e-7], [-1 + 3e-7, 1], [5e-8, 2 - 5e-8],
                # (and a hair of 5e-11, 1e-13 and ONE unit in the last place: no tolerance on the box is documented)
                [-2, 2 - 5e-11], [-1 + 1e-13, 1], [float(np.nextafter(0.0, 1.0)), float(np.nextafter(2.0, 0.0))]):
        for proj in (True, False):
            for cons in (False, True):
                out.append({"kind": "lattice", "D": 1, "box": box, "proj": proj, "cons": cons})
    for box in ([-1, 1], [0, 1], [-1, 1 - 1e-7]):
        for proj in (True, False):
            for cons in (False, True):
                out.append({"kind": "lattice", "D": 2, "box": box, "proj": proj, "cons": cons, "nlogs": 12 if tier == "quick" else 120, "seed": seed + 3})
    n = C.n_cases(tier, 70, 1500)
    for i in range(n):
        rng = gen.rng_for(seed, "C17", i)
        D = int(rng.choice([1, 2, 3], p=[0.25, 0.5, 0.25]))
        opts = {}
        if rng.random() < 0.3:
            opts["search_n_try"] = int(rng.choice([0, 1]))
        if rng.random() < 0.2:
            opts["tol_mesh"] = float(rng.choice([0.1, 1e-2]))
        if rng.random() < 0.2:
            opts["force_poll_mesh"] = True
        cons = str(rng.choice(["none", "ball", "halfspace", "corner", "band"], p=[0.6, 0.1, 0.1, 0.1, 0.1]))
        spec = gen.make_spec(rng, D=D, geom=str(rng.choice(["lin", "tight", "log", "unb", "offcentre", "mixedlog", "mixedunb"], p=[0.2, 0.25, 0.1, 0.1, 0.1, 0.1, 0.15])),
                             x0mode=("in" if cons != "none" else str(rng.choice(["in", "onlb", "onub", "none"]))),
                             land=str(rng.choice(["quad", "sphere", "l1", "ramp", "rosen", "stair"])),
                             where=str(rng.choice(["in", "onb", "out"], p=[0.25, 0.4, 0.35])),
                             mode=str(rng.choice(["det", "auto", "he"], p=[0.75, 0.1, 0.15])), cons=cons, options=opts,
                             max_fun_evals=int(rng.choice([60, 100, 150])))
        out.append({"kind": "run", "spec": spec})
    out += C.option_variation_slice("C17", tier, seed, kind="run")
    return out


def run_case(case):
    if case["kind"] == "lattice":
        ncalls, counts, viol, nontriv = lattice_cell(case)
        return {"status": "lattice", "lattice_calls": ncalls, "deviations": counts, "nontrivial_calls": nontriv,
                "cnt": {"C17.lattice_calls": ncalls}, "viol_count": {k: counts.get({"C17/fresh-not-filtered": "fresh"}.get(k, ""), 1) for k in viol},
                "viol": [{"key": k, "detail": v} for k, v in viol.items()]}
    return C.run_monitored(case, {"C17"})


def summarize(records, tier, seed):
    lat = [r for r in records if r.get("status") == "lattice"]
    runs = [r for r in records if r["case"]["kind"] == "run"]
    cnt = C.count_sum(records, "C17.")
    dev = {}
    for r in lat:
        for k, v in r["deviations"].items():
            dev[k] = dev.get(k, 0) + v
    nt_runs = 0
    for r in runs:
        c = r.get("cnt") or {}
        if c.get("C17.in_rows_oob") and c.get("C17.in_rows_already_evaluated"):
            nt_runs += 1
    extra = {"events_checked": cnt, "lattice_calls": sum(r["lattice_calls"] for r in lat), "lattice_deviations_by_suboracle": dev,
             "lattice_note": "'complete' deviations are recorded, not judged; 'fresh' deviations are the open known finding",
             "exhaustive_subspace": "D=1 lattice cells (all sequences <=3, all 32 logs, 3 boxes, proj, constraint) are enumerated completely",
             "run_status": C.status_hist(runs), "runs_with_oob_and_already_evaluated_inputs": nt_runs,
             "repeat_evaluations_in_deterministic_runs": cnt.get("C17.repeat_evals", 0),
             "aborts_by_other_defects": C.other_property_aborts(runs, "C17")}
    inconc = None
    if not lat or cnt.get("C17.filter_calls", 0) == 0:
        inconc = "lattice or in-run filter monitor never reached"
    return dict(evaluations=len(records), distinct_nontrivial=int(sum(r["nontrivial_calls"] for r in lat) + nt_runs), rule=RULE,
                samples=[{"lattice_cell": {k: r["case"][k] for k in ("D", "box", "proj", "cons")}, "calls": r["lattice_calls"], "deviations": r["deviations"]} for r in lat[:2]] + C.pick_samples(runs, None, 2),
                extra=extra, inconclusive=inconc, min_nontrivial=100)
