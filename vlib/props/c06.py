"""C06 — BADS actually minimises smooth unimodal targets within the default budget."""
import numpy as np

from .. import gen
from . import common as C

LEVEL = "exploration"
RULE = ("population monitor on the family named in the statement: random rotated quadratics (eigenvalues in [1,100]), minimiser uniform "
        "in [-4,4]^D, start uniform in the plausible box [-5,5]^D, hard box [-20,20]^D, D uniform in 1..5, DEFAULT options, seeded; about a third of the runs are preceded, in the same process, by a non-default PILOT instance of the same dimension (short budget / coarse tolerances, constructed or run) from which the default-option run must inherit nothing. The "
        "target wrapper keeps the running best and the evaluation index at which it first came within 1e-2 of the known minimum. "
        "Oracle: (a) fraction of runs with f(result.x)-f* <= 1e-3 >= 0.90; (b) panel median of (evaluations-to-1e-2)/D <= 40; (c) EVERY "
        "run: result.fval <= value at the mesh-snapped start (first call). A second panel of 60 problems from the hard corner of the same family (D 4-5, the quadratic shifted by +-1e3..1e8) is judged separately by the same thresholds. Non-trivial/distinct = distinct (D, condition-number decade, "
        "start-distance decile) cells hit by completed runs")
RUN_KW = {"quick": dict(timeout_case=300, wall_cap=800), "thorough": dict(timeout_case=600, wall_cap=3300)}
ASSUMPTIONS = ["a clean panel means 'held on this panel', not a guarantee about the population",
               "a rotated quadratic shifted by a constant is still a member of the family (the statement's tolerances are absolute)"]


def cases(tier, seed):
    n = 64 if tier == "quick" else 640
    out = []
    for i in range(n):
        rng = gen.rng_for(seed, "C06", i)
        D = int(rng.integers(1, 6))
        eig = 10 ** rng.uniform(0, 2, D)
        if D > 1:
            eig[0], eig[-1] = 1.0, 10 ** rng.uniform(0, 2)
        Q, _ = np.linalg.qr(rng.normal(size=(D, D)))
        A = Q @ np.diag(eig) @ Q.T
        case = {"D": D, "A": A.tolist(), "xmin": rng.uniform(-4, 4, D).tolist(), "x0": rng.uniform(-5, 5, D).tolist(),
                "seed": int(rng.integers(0, 2**31 - 1)), "cond": float(max(eig) / min(eig))}
        rng2 = gen.rng_for(seed, "C06", 50000 + i)
        if rng2.random() < 0.35:
            # a PILOT: an earlier, deliberately non-default BADS object of the same dimension in the same process (a short
            # exploratory run, a coarse run) - the default-option run that follows must not inherit anything from it
            case["pilot"] = {"options": {k: v for k, v in (("max_fun_evals", int(rng2.choice([15, 20, 30]))), ("tol_mesh", float(rng2.choice([1e-2, 1e-1]))),
                                                            ("tol_fun", float(rng2.choice([0.1, 1.0]))), ("max_iter", int(rng2.choice([3, 5]))))
                                         if rng2.random() < 0.6},
                             "run": bool(rng2.random() < 0.6)}
        out.append(case)
    # SECOND PANEL, the hard corner of the same family: the highest dimensions (4-5), and the quadratic shifted by a large
    # constant (|f*| = 1e3 .. 1e8; "within 1e-3 of the true minimum" is an absolute statement, and a log-likelihood-like
    # target has exactly this shape).  A panel of >= 60 problems of the family in its own right, judged by the same thresholds.
    for i in range(60 if tier == "quick" else 240):
        rng = gen.rng_for(seed, "C06", 900000 + i)
        D = int(rng.choice([4, 5]))
        eig = 10 ** rng.uniform(0, 2, D)
        eig[0], eig[-1] = 1.0, 10 ** rng.uniform(0, 2)
        Q, _ = np.linalg.qr(rng.normal(size=(D, D)))
        A = Q @ np.diag(eig) @ Q.T
        out.append({"D": D, "A": A.tolist(), "xmin": rng.uniform(-4, 4, D).tolist(), "x0": rng.uniform(-5, 5, D).tolist(), "seed": int(rng.integers(0, 2**31 - 1)),
                    "cond": float(max(eig) / min(eig)), "offset": float(rng.choice([1e3, -1e3, 1e6, 1e8, -1e8])), "panel": "hard"})
    return out


def run_case(case):
    from pybads import BADS

    D = case["D"]
    A = np.array(case["A"])
    xm = np.array(case["xmin"])
    st = {"n": 0, "best": np.inf, "hit": None, "first": None}
    off = float(case.get("offset", 0.0))

    def f(x):
        d = np.asarray(x, float).ravel() - xm
        v = float(d @ A @ d)  # distance to the true minimum value
        st["n"] += 1
        ret = v + off  # what the optimiser sees
        if st["first"] is None:
            st["first"] = ret
        if v < st["best"]:
            st["best"] = v
        if st["hit"] is None and st["best"] <= 1e-2:
            st["hit"] = st["n"]
        return ret

    pil = case.get("pilot")
    if pil is not None:
        po = dict(pil["options"], display="off")
        pb = BADS(lambda x: float(np.sum(np.asarray(x, float) ** 2)), None, -20 * np.ones((1, D)), 20 * np.ones((1, D)), -5 * np.ones((1, D)), 5 * np.ones((1, D)), options=po)
        if pil["run"]:
            pb.optimize()
    b = BADS(f, np.array([case["x0"]]), -20 * np.ones((1, D)), 20 * np.ones((1, D)), -5 * np.ones((1, D)), 5 * np.ones((1, D)),
             options={"display": "off", "random_seed": case["seed"]})
    r = b.optimize()
    d = np.asarray(r["x"], float).ravel() - xm
    gap = float(d @ A @ d)
    viol = []
    if not (r["fval"] <= st["first"]):
        viol.append({"key": "C06/result-worse-than-snapped-start", "detail": {"fval": r["fval"], "start_value": st["first"]}})
    dist = float(np.linalg.norm(np.array(case["x0"]) - xm))
    return {"status": "ok", "gap": gap, "hit": st["hit"], "ncalls": st["n"], "first": st["first"], "fval": r["fval"], "viol": viol, "cnt": {"C06.runs": 1, "C06.runs_preceded_by_a_non_default_pilot_instance": int(pil is not None)},
            "cell": [D, int(np.floor(np.log10(case["cond"]) * 2)), int(min(9, dist / (2.0 * np.sqrt(D))))]}


def summarize(records, tier, seed):
    ok_all = [r for r in records if r.get("status") == "ok"]
    hard = [r for r in ok_all if r["case"].get("panel") == "hard"]
    ok = [r for r in ok_all if r["case"].get("panel") != "hard"]
    n = len(ok)
    panel_viol = []
    extra = {"runs_completed": n}
    cells = set(tuple(r["cell"]) for r in ok_all)
    if hard:
        fh = sum(1 for r in hard if r["gap"] <= 1e-3) / len(hard)
        perh = [(r["hit"] / r["case"]["D"]) if r["hit"] is not None else np.inf for r in hard]
        medh = float(np.median(perh))
        extra["hard_panel(D 4-5, shifted by 1e3..1e8)"] = {"n": len(hard), "fraction_within_1e-3": round(fh, 4), "median_evals_to_1e-2_per_D": medh if np.isfinite(medh) else "inf",
                                                            "worst_gap": float(max(r["gap"] for r in hard))}
        if len(hard) >= 60:
            if fh < 0.90:
                panel_viol.append({"key": "C06/panel-success-fraction-below-90pct", "detail": {"fraction": fh, "n": len(hard), "panel": "hard corner: D 4-5, target shifted by a large constant"}})
            if not (medh <= 40):
                panel_viol.append({"key": "C06/panel-median-evaluations-to-1e-2-above-40D", "detail": {"median_per_D": medh if np.isfinite(medh) else "inf", "n": len(hard), "panel": "hard"}})
    if n:
        frac = sum(1 for r in ok if r["gap"] <= 1e-3) / n
        per = [(r["hit"] / r["case"]["D"]) if r["hit"] is not None else np.inf for r in ok]
        med = float(np.median(per))
        extra.update({"fraction_within_1e-3": round(frac, 4), "median_evals_to_1e-2_per_D": med if np.isfinite(med) else "inf",
                      "max_evals_to_1e-2_per_D": (float(max(p for p in per if np.isfinite(p))) if any(np.isfinite(p) for p in per) else None),
                      "runs_never_within_1e-2": sum(1 for p in per if not np.isfinite(p)),
                      "worst_gap": float(max(r["gap"] for r in ok)),
                      "by_D": {str(D): {"n": sum(1 for r in ok if r["case"]["D"] == D), "within_1e-3": sum(1 for r in ok if r["case"]["D"] == D and r["gap"] <= 1e-3),
                                        "median_evals_to_1e-2": (float(np.median([r["hit"] for r in ok if r["case"]["D"] == D and r["hit"]])) if any(r["case"]["D"] == D and r["hit"] for r in ok) else None)} for D in range(1, 6)}})
        if n >= 60:
            if frac < 0.90:
                panel_viol.append({"key": "C06/panel-success-fraction-below-90pct", "detail": {"fraction": frac, "n": n}})
            if not (med <= 40):
                panel_viol.append({"key": "C06/panel-median-evaluations-to-1e-2-above-40D", "detail": {"median_per_D": med if np.isfinite(med) else "inf", "n": n}})
    inconc = None
    if n < 60:
        inconc = f"panel too small: {n} completed runs (statement needs >= 60)"
    return dict(evaluations=len(records), distinct_nontrivial=len(cells), rule=RULE,
                samples=[{"D": r["case"]["D"], "cond": r["case"]["cond"], "gap": r["gap"], "evals_to_1e-2": r["hit"], "calls": r["ncalls"]} for r in ok[:5]],
                extra=extra, inconclusive=inconc, min_nontrivial=15, panel_viol=panel_viol)
