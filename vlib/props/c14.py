"""C14 — each poll explores a positive spanning set of mesh directions at the incumbent."""
import itertools
import sys

import numpy as np

from .. import gen
from . import common as C

LEVEL = "exploration"
RULE = ("(a) the direction generator's random source is replaced by a scripted source that replays EVERY outcome of its random "
        "choices (all strictly-lower-triangular entries, all 2^D diagonal signs, all D! permutations) for D<=3 and mesh ratios "
        "n in {1,2,4} with a non-trivial poll scale; the draw protocol (calls, shapes, ranges) is asserted so the script cannot "
        "silently desynchronise. Oracle per outcome: 2D rows, integer entries after multiplying the poll scale back, |entries|<=n, "
        "top block non-singular, bottom = -top, n=1 => exactly the signed unit vectors. (a2) sampled outcomes with the real numpy "
        "source for D 4..6, n up to 16. (b) in full runs, every point evaluated in a poll step = incumbent + mesh*(+-d_i) from that "
        "step's own generator output, each direction once, <= 2D per step. distinct_nontrivial = enumerated outcomes + poll steps "
        "with >= 2 evaluations (both measured)")
RUN_KW = {"quick": dict(timeout_case=200, wall_cap=700), "thorough": dict(timeout_case=600, wall_cap=3300)}
ASSUMPTIONS = ["'every outcome of the random choices' = every value the scripted randint/permutation can return under the asserted protocol"]


class ProtocolError(Exception):
    pass


class Script:
    """stands in for numpy.random inside pybads.poll.poll_mads_2n"""

    def __init__(self, D, n, lower, signs, perm):
        self.D, self.n, self.lower, self.signs, self.perm = D, n, lower, signs, perm
        self.step = 0

    def randint(self, low, high=None, size=None):
        D, n = self.D, self.n
        if self.step == 0:
            if not (low == 1 and high == 2 * n and tuple(np.atleast_1d(size)) == (D, D)):
                raise ProtocolError(f"draw0 randint({low},{high},{size})")
            self.step = 1
            M = np.ones((D, D), dtype=int)  # value 1 -> entry 1-n (irrelevant above the diagonal)
            it = iter(self.lower)
            for i in range(D):
                for j in range(i):
                    M[i, j] = next(it) + n  # entry e in [-(n-1), n-1] -> draw e+n in [1, 2n-1]
            return M
        if self.step == 1:
            if not (low == 1 and high == 3 and int(np.prod(np.atleast_1d(size))) == D):
                raise ProtocolError(f"draw1 randint({low},{high},{size})")
            self.step = 2
            return np.array([2 if s > 0 else 1 for s in self.signs])
        raise ProtocolError("unexpected third randint")

    def permutation(self, x):
        if self.step != 2 or np.asarray(x).shape != (self.D, self.D):
            raise ProtocolError("unexpected permutation call")
        self.step = 3
        return np.asarray(x)[list(self.perm)]

    def __getattr__(self, name):
        raise ProtocolError(f"unexpected random call {name}")


def check_matrix(B, D, n, scale):
    """returns list of violation keys"""
    bad = []
    if B.shape != (2 * D, D):
        return ["C14/direction-set-shape"]
    M = B * scale
    R = np.round(M)
    if np.max(np.abs(M - R)) > 1e-9:
        bad.append("C14/directions-not-integer")
    if np.max(np.abs(R)) > n:
        bad.append("C14/entry-exceeds-mesh-ratio")
    if not np.array_equal(R[D:], -R[:D]):
        bad.append("C14/not-plus-minus-pairs")
    if abs(np.linalg.det(R[:D])) < 0.5:
        bad.append("C14/singular-direction-matrix")
    if n == 1:
        want = sorted(map(tuple, np.vstack([np.eye(D), -np.eye(D)]).tolist()))
        if sorted(map(tuple, (R + 0.0).tolist())) != want:
            bad.append("C14/not-signed-unit-vectors")
    return bad


def enum_cell(D, n, limit=None):
    mod = sys.modules["pybads.poll.poll_mads_2n"]
    f = mod.poll_mads_2n
    real = mod.rnd
    scale = np.array([0.37, 1.0, 2.5, 0.8, 1.3, 0.6])[:D]
    L = D * (D - 1) // 2
    vals = range(-(n - 1), n)
    count = 0
    viol = {}
    seen = set()
    example = None
    try:
        for lower in itertools.product(vals, repeat=L):
            for signs in itertools.product((-1, 1), repeat=D):
                for perm in itertools.permutations(range(D)):
                    sc = Script(D, n, lower, signs, perm)
                    mod.rnd = sc
                    B = f(D, scale, 2.0 ** (-3) * n, 2.0 ** (-3))
                    if sc.step != 3:
                        raise ProtocolError(f"generator stopped after {sc.step} draws")
                    count += 1
                    seen.add(np.round(B * scale).astype(int).tobytes())
                    for k in check_matrix(B, D, n, scale):
                        viol.setdefault(k, {"lower": lower, "signs": signs, "perm": perm, "B_times_scale": (B * scale).tolist()})
                    if example is None and L and any(lower):
                        example = {"lower": lower, "signs": signs, "perm": perm, "directions": np.round(B * scale).astype(int).tolist()}
    finally:
        mod.rnd = real
    return count, len(seen), viol, example


def sample_cell(D, n, reps, seed, ratio=None):
    mod = sys.modules["pybads.poll.poll_mads_2n"]
    f = mod.poll_mads_2n
    rs = np.random.RandomState(seed)
    st = np.random.get_state()
    np.random.seed(seed)
    scale = rs.uniform(0.2, 3.0, D)
    viol = {}
    seen = set()
    try:
        for _ in range(reps):
            # (ratio: a search mesh that is NOT an integer multiple of the poll mesh, as non-integer poll_mesh_multiplier values
            # produce; the documented mesh ratio is then round(search mesh / poll mesh))
            B = f(D, scale, 2.0 ** (-5) * (n if ratio is None else ratio), 2.0 ** (-5))
            seen.add(np.round(B * scale).astype(int).tobytes())
            for k in check_matrix(B, D, n, scale):
                viol.setdefault(k, {"B_times_scale": (B * scale).tolist()})
    finally:
        np.random.set_state(st)
    return reps, len(seen), viol


def cases(tier, seed):
    out = []
    cells = [(1, 1), (1, 2), (1, 4), (2, 1), (2, 2), (2, 4), (3, 1), (3, 2), (3, 4), (4, 1)]
    if tier == "thorough":
        cells += [(1, 8), (2, 8), (3, 3), (4, 2)]
    for D, n in cells:
        out.append({"kind": "enum", "D": D, "n": n})
    for D in (4, 5, 6):
        for n in (1, 2, 8, 16):
            out.append({"kind": "sample", "D": D, "n": n, "reps": 300 if tier == "quick" else 3000, "seed": seed + 17 * D + n})
    for D in (1, 2, 3, 4):
        for ratio in (0.75, 1.5, 2.25, 2.5, 3.4, 5.5):
            out.append({"kind": "sample", "D": D, "n": int(max(1, np.round(ratio))), "ratio": ratio, "reps": 150 if tier == "quick" else 1500, "seed": seed + 31 * D + int(10 * ratio)})
    nrun = C.n_cases(tier, 70, 1500)
    for i in range(nrun):
        rng = gen.rng_for(seed, "C14", i)
        D = int(rng.choice([1, 2, 3, 4], p=[0.15, 0.45, 0.3, 0.1]))
        opts = {"search_n_try": int(rng.choice([0, 1]))} if rng.random() < 0.6 else {}
        if rng.random() < 0.3:
            opts["force_poll_mesh"] = True
        if rng.random() < 0.4:
            opts["complete_poll"] = True
        if rng.random() < 0.15:
            opts["search_grid_number"] = int(rng.choice([0, 1]))  # search mesh = poll mesh (ratio may be >1 after failures)
        spec = gen.make_spec(rng, D=D, geom=str(rng.choice(["lin", "tight", "log", "unb", "offcentre", "mixedlog"])),
                             x0mode=str(rng.choice(["in", "onlb", "onub"], p=[0.5, 0.25, 0.25])),
                             land=str(rng.choice(["l1", "rosen", "stair", "ramp", "quad"])), where=str(rng.choice(["in", "onb", "out"])),
                             mode=str(rng.choice(gen.MODES, p=[0.6, 0.1, 0.1, 0.05, 0.15])), options=opts,
                             max_fun_evals=int(rng.choice([60, 100, 150])))
        out.append({"kind": "run", "spec": spec})
    return out


def run_case(case):
    if case["kind"] == "enum":
        try:
            count, distinct, viol, example = enum_cell(case["D"], case["n"])
        except ProtocolError as e:
            return {"status": "protocol-mismatch", "protocol_error": str(e), "viol": [], "cnt": {}}
        return {"status": "enumerated", "outcomes": count, "distinct_matrices": distinct, "example": example, "cnt": {"C14.enumerated_outcomes": count},
                "viol": [{"key": k, "detail": dict(v, D=case["D"], n=case["n"], source="scripted")} for k, v in viol.items()]}
    if case["kind"] == "sample":
        reps, distinct, viol = sample_cell(case["D"], case["n"], case["reps"], case["seed"], case.get("ratio"))
        return {"status": "sampled", "outcomes": reps, "distinct_matrices": distinct, "cnt": {"C14.sampled_outcomes": reps},
                "viol": [{"key": k, "detail": dict(v, D=case["D"], n=case["n"], source="numpy")} for k, v in viol.items()]}
    return C.run_monitored(case, {"C14"})


def summarize(records, tier, seed):
    enum = [r for r in records if r.get("status") == "enumerated"]
    proto = [r for r in records if r.get("status") == "protocol-mismatch"]
    runs = [r for r in records if r["case"]["kind"] == "run"]
    cnt = C.count_sum(records, "C14.")
    n_enum = sum(r["outcomes"] for r in enum)
    extra = {"events_checked": cnt, "enumerated_cells": {f"D={r['case']['D']},n={r['case']['n']}": {"outcomes": r["outcomes"], "distinct_direction_sets": r["distinct_matrices"]} for r in enum},
             "sampled_cells": {f"D={r['case']['D']},n={r['case']['n']}": {"outcomes": r["outcomes"], "distinct_direction_sets": r["distinct_matrices"]} for r in records if r.get("status") == "sampled"},
             "exhaustive_subspace": "all outcomes of the generator's random choices for the enumerated (D, n) cells listed",
             "run_status": C.status_hist(runs), "aborts_by_other_defects": C.other_property_aborts(runs, "C14")}
    inconc = None
    if proto:
        inconc = "draw protocol of the direction generator differs from the script: " + proto[0]["protocol_error"]
    elif n_enum == 0 or cnt.get("C14.poll_evals", 0) == 0:
        inconc = "enumeration or in-run poll monitor never reached"
    samples = [{"enumerated_outcome": r.get("example"), "D": r["case"]["D"], "n": r["case"]["n"]} for r in enum if r.get("example")][:2] + C.pick_samples(runs, lambda r: (r.get("cnt") or {}).get("C14.steps_with_2plus_evals"), 2)
    return dict(evaluations=len(records), distinct_nontrivial=int(sum(r["distinct_matrices"] for r in enum) + cnt.get("C14.steps_with_2plus_evals", 0)),
                rule=RULE, samples=samples, extra=extra, inconclusive=inconc, min_nontrivial=100, exhaustive=False)
