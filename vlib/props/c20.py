"""C20 — options: user settings win, unknown names rejected, no leaks between instances."""
import copy
import os

import numpy as np

from .. import gen
from . import common as C

LEVEL = "exploration"
RULE = ("(a) EVERY option name of both option files overridden singly with a type-appropriate sentinel (numbers perturbed, booleans "
        "flipped, enumerated strings moved to another legal value) for several D: after construction options[name] must equal the "
        "sentinel and every other name the reference default for this D computed by an independent reader of the .ini files "
        "(dependants of an overridden tol_fun must follow the user's value); random subsets of 2-20 simultaneous overrides. "
        "(b) unknown names (random identifiers, case variants, prefixes, near-misses, names from the test ini files) => ValueError at "
        "construction, target never called. (c) isolation: deep value snapshots of instance A's options before/after constructing and "
        "running instances B, C with other D and overrides, in several orders; A's D-dependent defaults must stay those of A's D. "
        "(d) the caller's options dict (keys, values, identity of mutable values) and x0/bounds arrays are bitwise unchanged after "
        "construction and after optimize() in all noise modes. distinct_nontrivial = distinct (option name, D) overrides + subsets + "
        "unknown names + isolation orders (all measured)")
RUN_KW = {"quick": dict(timeout_case=400, wall_cap=800), "thorough": dict(timeout_case=1500, wall_cap=3300)}
ASSUMPTIONS = ["periodic_vars (documented unsupported) and non-empty fun_values (unreachable: the constructor loop cannot run) are excluded and named in the evidence",
               "options the constructor itself canonicalises (stobads, specify_target_noise, uncertainty_handling None->False) are compared after the same canonicalisation"]

SKIP = {"periodic_vars": "documented as not supported (constructor raises)", "fun_values": "non-empty value unreachable (constructor loop is `for i in range(len())`)"}
ENUMS = {"display": ["off", "iter", "full"], "gp_mean_fun": ["const", "zero", "negquad"], "init_fun": ["init_sobol"], "gp_cov_prior": ["iso", "none"],
         "gp_train_init_method": ["rand", "sobol"], "poll_method": ["poll_mads_2n", "other"], "gp_hyp_sampler": ["slicesample", "other"],
         "gp_method": ["nearest", "other"], "hessian_method": ["bfgs", "cmaes"], "variational_sampler": ["malasample", "other"], "init_design": ["plausible", "other"]}
CANON = {"stobads": lambda v: False if v is None else v, "specify_target_noise": lambda v: False if v is None else v}


def _paths():
    import pybads

    d = os.path.join(os.path.dirname(pybads.__file__), "bads", "option_configs")
    return [os.path.join(d, "basic_bads_options.ini"), os.path.join(d, "advanced_bads_options.ini")]


def sentinel(name, default, rs):
    if name in ENUMS:
        alt = [v for v in ENUMS[name] if v != default]
        return alt[0] if alt else default
    if isinstance(default, (bool, np.bool_)):
        return not bool(default)
    if default is None:
        return {"uncertainty_handling": False, "noise_size": 0.37, "random_seed": 4242, "output_fcn": None, "f_vals": None}.get(name, None)
    if isinstance(default, (int, np.integer)):
        return int(default) + 3
    if isinstance(default, (float, np.floating)):
        if not np.isfinite(default):
            return 12345.0
        return float(default) * 1.25 + 0.125
    if isinstance(default, np.ndarray):
        return default + 1.5
    if isinstance(default, tuple):
        return tuple(default) + ("extra",)
    if isinstance(default, list):
        return list(default[:1])
    if isinstance(default, dict):
        return {}
    if isinstance(default, str):
        return default + "_x"
    if callable(default):
        return _other_fun
    return default


def _other_fun(ym, y):
    return 1.0


def same(a, b):
    if callable(a) and callable(b):
        if a is b:
            return True
        try:
            y = np.array([0.0, 1.0, 4.0])
            return a(2.0, y) == b(2.0, y)
        except Exception:
            return False
    if isinstance(a, np.ndarray) or isinstance(b, np.ndarray):
        try:
            return np.array_equal(np.asarray(a), np.asarray(b), equal_nan=True)
        except Exception:
            return False
    if isinstance(a, float) and isinstance(b, float) and np.isnan(a) and np.isnan(b):
        return True
    try:
        return bool(a == b) and (type(a) == type(b) or isinstance(a, (int, float, np.number)) and isinstance(b, (int, float, np.number)))
    except Exception:
        return False


def _f(x):
    _f.calls += 1
    return float(np.sum(np.asarray(x) ** 2))


_f.calls = 0


def mk(D, opts):
    from pybads import BADS

    return BADS(_f, None, -5.0 * np.ones((1, D)), 5.0 * np.ones((1, D)), -np.ones((1, D)), np.ones((1, D)), options=opts)


def check_instance(b, D, user, viol, tag, cnt):
    from ..models import reference_options

    ref = reference_options(_paths(), D, user)
    got = dict(dict.items(b.options))
    got.pop("useroptions", None)
    for k, v in ref.items():
        cnt["C20.option_values_compared"] = cnt.get("C20.option_values_compared", 0) + 1
        g = got.get(k, "<missing>")
        exp = CANON[k](v) if k in CANON else v
        if k == "uncertainty_handling" and exp is None and got.get("specify_target_noise"):
            exp = False
        if not same(g, exp):
            key = "C20/user-option-overwritten" if k in user else "C20/default-not-documented-value-for-D"
            viol.setdefault(key, {"option": k, "got": repr(g)[:80], "expected": repr(exp)[:80], "D": D, "user": {a: repr(c)[:40] for a, c in user.items()}, "where": tag})
    extra = set(got) - set(ref)
    if extra:
        viol.setdefault("C20/unknown-option-present", {"names": sorted(extra)[:5]})


def part_single(D, lo, hi, seed):
    from ..models import reference_options

    rs = np.random.RandomState(seed)
    base = reference_options(_paths(), D, {})
    names = sorted(base)[lo:hi]
    viol = {}
    cnt = {}
    done = []
    for name in names:
        if name in SKIP:
            continue
        s = sentinel(name, base[name], rs)
        user = {"display": "off", name: s} if name != "display" else {name: s}
        if name == "specify_target_noise":
            user["uncertainty_handling"] = True
        user_copy = dict(user)
        try:
            b = mk(D, user)
        except Exception as e:
            viol.setdefault("C20/legal-override-rejected", {"option": name, "sentinel": repr(s)[:60], "exc": repr(e)[:160], "D": D})
            continue
        done.append(name)
        cnt["C20.single_overrides"] = cnt.get("C20.single_overrides", 0) + 1
        check_instance(b, D, user_copy, viol, "single:" + name, cnt)
    return done, viol, cnt


def part_subsets(n, seed):
    from ..models import reference_options

    rs = np.random.RandomState(seed)
    viol = {}
    cnt = {}
    for _ in range(n):
        D = int(rs.choice([1, 2, 3, 5, 8]))
        base = reference_options(_paths(), D, {})
        names = [k for k in sorted(base) if k not in SKIP and k not in ("specify_target_noise", "gp_mean_fun", "init_fun")]
        pick = list(rs.choice(names, size=int(rs.randint(2, 21)), replace=False))
        user = {"display": "off"}
        for k in pick:
            user[k] = sentinel(k, base[k], rs)
        if rs.rand() < 0.5:
            user["tol_fun"] = float(10 ** rs.uniform(-6, 0))
        uc = dict(user)
        try:
            b = mk(D, user)
        except Exception as e:
            viol.setdefault("C20/legal-override-rejected", {"options": pick[:6], "exc": repr(e)[:160], "D": D})
            continue
        cnt["C20.subset_overrides"] = cnt.get("C20.subset_overrides", 0) + 1
        check_instance(b, D, uc, viol, "subset", cnt)
    return viol, cnt


def part_unknown(n, seed):
    from ..models import reference_options

    rs = np.random.RandomState(seed)
    viol = {}
    cnt = {}
    known = sorted(reference_options(_paths(), 2, {}))
    cand = ["Display", "MAX_FUN_EVALS", "maxfunevals", "max_fun_eval", "max_fun_evals ", "tolmesh", "tol_mesh_", "uncertaintyhandling", "useroptions2", "foo",
            "sgdstepsize", "skiponfailure", "nonlinearscaling", "specifytargetnoise", "random_state", "seed", "options", "D"]
    for k in known:
        if rs.rand() < 0.15:
            cand.append(k[:-1])
            cand.append(k.upper())
            cand.append(k + "s")
    cand = [c for c in dict.fromkeys(cand) if c not in known][:n]
    for name in cand:
        _f.calls = 0
        cnt["C20.unknown_names_tried"] = cnt.get("C20.unknown_names_tried", 0) + 1
        try:
            mk(int(rs.choice([1, 2, 4])), {"display": "off", name: 1})
            viol.setdefault("C20/unknown-option-accepted", {"name": name})
        except ValueError:
            pass
        except Exception as e:
            viol.setdefault("C20/unknown-option-wrong-exception", {"name": name, "exc": repr(e)[:160]})
        if _f.calls:
            viol.setdefault("C20/target-called-for-unknown-option", {"name": name})
    return viol, cnt


def snap(b):
    d = {}
    for k, v in dict.items(b.options):
        d[k] = copy.deepcopy(v) if not callable(v) else v
    return d


def diff_snap(a, b):
    out = []
    for k in set(a) | set(b):
        if k not in a or k not in b:
            out.append(k)
        elif k == "useroptions":
            if set(a[k]) != set(b[k]):
                out.append(k)
        elif not same(a[k], b[k]):
            out.append(k)
    return sorted(out)


def part_isolation(n, seed):
    from ..models import reference_options

    rs = np.random.RandomState(seed)
    viol = {}
    cnt = {}
    orders = set()
    for _ in range(n):
        DA, DB, DC = [int(x) for x in rs.choice([1, 2, 3, 5], size=3)]
        ua = {"display": "off", "random_seed": int(rs.randint(1000)), "max_fun_evals": int(rs.choice([30, 45]))}
        if rs.rand() < 0.5:
            ua["tol_fun"] = 0.02
        ub = {"display": "off", "max_fun_evals": 40, "uncertainty_handling": True, "specify_target_noise": bool(rs.rand() < 0.5), "tol_mesh": 1e-3, "search_n_try": 1}
        plan = str(rs.choice(["A,B,b,a", "A,B,a,b", "A,b!,a", "A,B,C,b,c,a", "B,A,b,a", "A,a,B,b,a2"]))
        orders.add((plan, DA, DB))
        A = mk(DA, dict(ua))
        sA = snap(A)
        refA = reference_options(_paths(), DA, ua)

        def noisy(he):
            def f(x):
                v = float(np.sum(np.asarray(x) ** 2)) + 0.1 * np.random.randn()
                return (v, 0.1) if he else v
            return f

        from pybads import BADS

        B = BADS(noisy(ub["specify_target_noise"]), None, -3.0 * np.ones((1, DB)), 3.0 * np.ones((1, DB)), -np.ones((1, DB)), np.ones((1, DB)), options=dict(ub))
        d1 = diff_snap(sA, snap(A))
        if d1:
            viol.setdefault("C20/options-changed-by-constructing-another-instance", {"changed": d1[:6], "DA": DA, "DB": DB})
        B.optimize()
        cnt["C20.isolation_scenarios"] = cnt.get("C20.isolation_scenarios", 0) + 1
        d2 = diff_snap(sA, snap(A))
        if d2:
            viol.setdefault("C20/options-changed-by-running-another-instance", {"changed": d2[:6], "DA": DA, "DB": DB, "plan": plan})
        if "C" in plan:
            Cc = mk(DC, {"display": "off", "max_fun_evals": 25})
            Cc.optimize()
        # A's D-dependent defaults still those of A's D
        for k in ("max_iter", "tol_stall_iters", "search_n_try", "n_train_max", "fun_eval_start", "hedge_decay", "tol_poi"):
            cnt["C20.d_dependent_defaults_checked"] = cnt.get("C20.d_dependent_defaults_checked", 0) + 1
            if not same(A.options[k], refA[k]):
                viol.setdefault("C20/default-not-documented-value-for-D", {"option": k, "got": repr(A.options[k]), "expected": repr(refA[k]), "D": DA, "after": "instance of D=%d" % DB})
        # a fresh A2 built AFTER B ran must get the defaults of its own D as well
        A2 = mk(DA, dict(ua))
        d3 = diff_snap(sA, snap(A2))
        if d3:
            viol.setdefault("C20/defaults-depend-on-earlier-instances", {"changed": d3[:6], "DA": DA, "DB": DB})
        A.optimize()
    return viol, cnt, len(orders)


def part_caller(n, seed):
    from pybads import BADS

    rs = np.random.RandomState(seed)
    viol = {}
    cnt = {}
    for i in range(n):
        D = int(rs.choice([1, 2, 3]))
        mode = ["det", "auto", "declared", "he"][i % 4]
        lst = [("ES-wcm", 1), ("ES-ell", 1)]
        nn = np.array([1.0, 0.0])
        opts = {"display": "off", "max_fun_evals": 45, "random_seed": 5, "search_method": lst, "noise_nudge": nn, "noise_final_samples": 3}
        if mode in ("declared", "he"):
            opts["uncertainty_handling"] = True
        if mode == "he":
            opts["specify_target_noise"] = True
        if mode == "declared":
            opts["noise_size"] = np.array([0.3])
        # vary which keys the caller's dict has (a missing key invites setdefault/update on the caller's object)
        for kdrop in ("display", "random_seed", "search_method", "noise_nudge", "noise_final_samples"):
            if rs.rand() < 0.35:
                opts.pop(kdrop, None)
        keys0 = list(opts.keys())
        vals0 = {k: copy.deepcopy(v) for k, v in opts.items()}
        ids0 = {k: id(v) for k, v in opts.items()}
        arrs = {"x0": np.full((1, D), 0.25), "lb": -4.0 * np.ones((1, D)), "ub": 4.0 * np.ones((1, D)), "plb": -np.ones((1, D)), "pub": 2 * np.ones((1, D))}
        if rs.rand() < 0.5:
            arrs = {k: v.ravel().copy() for k, v in arrs.items()}
        if rs.rand() < 0.3:
            arrs["x0"][...] = -4.0  # on the bound: the constructor moves its OWN copy inside
        if rs.rand() < 0.3:
            arrs["lb"][...], arrs["plb"][...], arrs["pub"][...], arrs["ub"][...], arrs["x0"][...] = 0.01, 0.1, 10.0, 100.0, 1.0
        a0 = {k: v.copy() for k, v in arrs.items()}

        def f(x):
            v = float(np.sum(np.asarray(x) ** 2))
            if mode == "det":
                return v
            v += 0.2 * np.random.randn()
            return (v, 0.2) if mode == "he" else v

        omit_pl = rs.rand() < 0.35  # plausible bounds omitted: BADS defaults them to (copies of) the caller's hard bounds
        b = BADS(f, arrs["x0"], arrs["lb"], arrs["ub"], None if omit_pl else arrs["plb"], None if omit_pl else arrs["pub"], options=opts)

        def chk(when):
            cnt["C20.caller_object_checks"] = cnt.get("C20.caller_object_checks", 0) + 1
            if list(opts.keys()) != keys0:
                viol.setdefault("C20/caller-options-dict-keys-changed", {"when": when, "now": list(opts.keys()), "before": keys0})
            for k in keys0:
                if k in opts and (id(opts[k]) != ids0[k] or not same(opts[k], vals0[k])):
                    viol.setdefault("C20/caller-options-dict-value-changed", {"when": when, "key": k, "now": repr(opts[k])[:60], "before": repr(vals0[k])[:60], "mode": mode})
            for k, v in arrs.items():
                if not np.array_equal(v, a0[k]) or v.shape != a0[k].shape or v.dtype != a0[k].dtype:
                    viol.setdefault("C20/caller-array-changed", {"when": when, "which": k, "now": v, "before": a0[k], "mode": mode})

        chk("after-construction")
        b.optimize()
        chk("after-optimize")
    return viol, cnt


def part_effect(n, seed):
    """'takes effect with exactly the supplied value': the stored value is not enough - for random_seed (incl. the falsy
    0 / 0.0 / False-like spellings) the starting point drawn when x0 is omitted must be a function of the seed alone, and
    the run must report that seed."""
    rs = np.random.RandomState(seed)
    viol, cnt = {}, {}
    seeds = [0, 0, 1, 7, 2**32 - 1, np.int64(0), int(rs.randint(2, 10**6))]
    for t in range(n):
        D = int(rs.randint(1, 4))
        sd = seeds[t % len(seeds)]
        x0s = []
        for amb in (int(rs.randint(10**6)), int(rs.randint(10**6))):
            np.random.seed(amb)
            np.random.rand(int(rs.randint(1, 50)))
            b = mk(D, {"display": "off", "random_seed": sd, "max_fun_evals": 12})
            x0s.append(np.array(b.x0, float, copy=True))
            cnt["C20.seed_effect_constructions"] = cnt.get("C20.seed_effect_constructions", 0) + 1
        if not np.array_equal(x0s[0], x0s[1]):
            viol.setdefault("C20/user-random-seed-has-no-effect", {"random_seed": repr(sd), "x0_first": x0s[0], "x0_second": x0s[1], "D": D,
                                                                  "note": "two instances with the same seed drew different starting points under different ambient RNG states"})
        if t % 3 == 0:
            np.random.rand(3)
            r = b.optimize()
            cnt["C20.seed_effect_runs"] = cnt.get("C20.seed_effect_runs", 0) + 1
            if r["random_seed"] is None or r["random_seed"] != sd:
                viol.setdefault("C20/user-random-seed-not-reported", {"random_seed": repr(sd), "reported": repr(r["random_seed"])})
    return viol, cnt


def cases(tier, seed):
    out = [{"kind": "effect", "n": 14 if tier == "quick" else 140, "seed": seed + 77}]
    Ds = [2] if tier == "quick" else [1, 2, 3, 5, 8]
    for D in Ds:
        for lo in range(0, 200, 25):
            out.append({"kind": "single", "D": D, "lo": lo, "hi": lo + 25, "seed": seed + lo})
    for k in range(8):
        out.append({"kind": "subsets", "n": 25 if tier == "quick" else 600, "seed": seed * 10 + k})
    out.append({"kind": "unknown", "n": 60 if tier == "quick" else 400, "seed": seed})
    for k in range(8):
        out.append({"kind": "isolation", "n": 5 if tier == "quick" else 60, "seed": seed * 10 + k})
    for k in range(4):
        out.append({"kind": "caller", "n": 8 if tier == "quick" else 60, "seed": seed * 10 + k})
    return out


def run_case(case):
    k = case["kind"]
    extra = {}
    if k == "single":
        done, viol, cnt = part_single(case["D"], case["lo"], case["hi"], case["seed"])
        extra["names"] = done
    elif k == "subsets":
        viol, cnt = part_subsets(case["n"], case["seed"])
    elif k == "unknown":
        viol, cnt = part_unknown(case["n"], case["seed"])
    elif k == "effect":
        viol, cnt = part_effect(case["n"], case["seed"])
    elif k == "isolation":
        viol, cnt, norders = part_isolation(case["n"], case["seed"])
        extra["orders"] = norders
    else:
        viol, cnt = part_caller(case["n"], case["seed"])
    return dict({"status": k, "cnt": cnt, "viol": [{"key": a, "detail": b} for a, b in viol.items()]}, **extra)


def summarize(records, tier, seed):
    cnt = C.count_sum(records, "C20.")
    names = set()
    for r in records:
        if r.get("status") == "single":
            for nme in r.get("names") or []:
                names.add((nme, r["case"]["D"]))
    orders = sum(r.get("orders", 0) for r in records)
    inconc = None
    for need in ("C20.single_overrides", "C20.subset_overrides", "C20.unknown_names_tried", "C20.isolation_scenarios", "C20.caller_object_checks"):
        if cnt.get(need, 0) == 0:
            inconc = f"part never ran: {need}"
    return dict(evaluations=int(cnt.get("C20.single_overrides", 0) + cnt.get("C20.subset_overrides", 0) + cnt.get("C20.unknown_names_tried", 0) + cnt.get("C20.isolation_scenarios", 0) + cnt.get("C20.caller_object_checks", 0)),
                distinct_nontrivial=int(len(names) + cnt.get("C20.subset_overrides", 0) + cnt.get("C20.unknown_names_tried", 0) + orders), rule=RULE,
                samples=[{"single_override": list(t)} for t in sorted(names)[:5]],
                extra={"events_checked": cnt, "distinct_option_names_overridden": len({n for n, _ in names}), "names_skipped": SKIP}, inconclusive=inconc, min_nontrivial=100)
