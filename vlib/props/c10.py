"""C10 — target failures and invalid target values surface immediately and unchanged."""
import numpy as np

from .. import gen
from . import common as C

LEVEL = "fault_enumeration"
RULE = ("for each seeded problem (noise modes det/auto/he x geometries) an unfaulted reference run tags every target call with its "
        "phase (start point, noise-test repeat, initial design, search step, poll step, final re-sampling; under specified noise also RE-OBSERVATIONS of an already logged point, "
        "found from a reference run of a tight, coarse-mesh problem); the same problem is then "
        "re-run with a target that misbehaves at its k-th call ONLY: quick = 2 positions per phase, thorough = EVERY k; fault kinds: "
        "raise {ValueError, RuntimeError, ZeroDivisionError, LinAlgError, KeyError, IndexError, custom exception with non-trivial "
        "constructor, StopIteration, AttributeError, AssertionError, OverflowError, TypeError, LookupError, ArithmeticError, OSError, NotImplementedError, FloatingPointError}; return NaN, +inf, -inf, complex (also with a round-off sized imaginary part, numpy and Python spellings), length-2 array, list, None, empty array, np.nan scalar; with specified noise: "
        "bare scalar, 3-tuple, list pair, 1-tuple, SD in {0, -1, NaN, +inf, -inf, complex, length-2 array}. Oracle: the exception "
        "escaping optimize() IS the injected object (raises) / a ValueError (invalid values); the target is never called again; "
        "func_count == k; every logged value finite, SDs positive finite, the faulty point not logged unless validly evaluated before. "
        "Faults whose index is never reached are 'not delivered' and not judged. distinct_nontrivial = distinct (phase, fault kind, "
        "mode) triples delivered (measured)")
RUN_KW = {"quick": dict(timeout_case=600, wall_cap=900), "thorough": dict(timeout_case=3000, wall_cap=3400)}
ASSUMPTIONS = ["SD forms not listed in the statement (None, strings) are recorded, not judged"]

RAISES = ["raise:ValueError", "raise:RuntimeError", "raise:ZeroDivisionError", "raise:LinAlgError", "raise:KeyError", "raise:IndexError", "raise:Custom",
          # exception classes that Python's own protocols give a meaning to (iteration, attribute lookup, arithmetic, ...):
          # a target failing with one of them must not be mistaken for a normal control-flow signal
          "raise:StopIteration", "raise:AttributeError", "raise:AssertionError", "raise:OverflowError", "raise:TypeError", "raise:LookupError",
          "raise:ArithmeticError", "raise:OSError", "raise:NotImplementedError", "raise:FloatingPointError"]
VALS = ["val:nan", "val:inf", "val:-inf", "val:complex", "val:vec2", "val:list2", "val:none", "val:empty", "val:npnan", "val:arrnan", "val:complex-tiny-np", "val:complex-tiny-py"]
HE = ["form:scalar", "form:triple", "form:listpair", "form:single", "sd:zero", "sd:neg", "sd:nan", "sd:inf", "sd:-inf", "sd:complex", "sd:vec2", "sd:arrneg"]


NCHUNK = 8


def cases(tier, seed):
    out = []
    n = 32 if tier == "quick" else 48
    for i in range(n):
        rng = gen.rng_for(seed, "C10", i)
        mode = ["det", "auto", "he"][i % 3]
        geom = ["lin", "log", "unb", "tight"][(i // 3) % 4]
        opts = {"noise_final_samples": int(rng.choice([1, 3]))} if mode != "det" else {}
        cons = "ball" if i % 6 == 5 else "none"
        spec = gen.make_spec(rng, D=int(rng.choice([1, 2, 3])), geom=geom, x0mode=str(rng.choice(["in", "none"])) if cons == "none" else "in",
                             land=str(rng.choice(["quad", "sphere", "l1"])), where="in", mode=mode, cons=cons, options=opts, sigma=0.3,
                             noise_src="private", max_fun_evals=int(rng.choice([42, 50, 60])) if mode == "det" else int(rng.choice([50, 60])))
        pseed = int(rng.integers(1 << 30))
        if tier == "quick":
            out.append({"spec": spec, "positions": "2perphase", "pseed": pseed})
        else:
            # every k, split into NCHUNK interleaved position classes so that the shards stay balanced
            for j in range(NCHUNK):
                out.append({"spec": spec, "positions": "all", "chunk": [j, NCHUNK], "pseed": pseed})
    # specified noise + repeated points: the faulty call is a RE-OBSERVATION of an already logged point (merge path)
    for j in range(4 if tier == "quick" else 12):
        rng = gen.rng_for(seed, "C10", 5000 + j)
        spec = gen.make_spec(rng, D=int(rng.choice([1, 1, 2])), geom=str(rng.choice(["tight", "lin"])), x0mode="in", land=str(rng.choice(["sphere", "l1", "ramp"])),
                             where=str(rng.choice(["onb", "out"])), mode="he", sigma=0.3, noise_src="private", max_fun_evals=int(rng.choice([80, 110])),
                             options={"noise_final_samples": 1, "tol_mesh": float(rng.choice([0.25, 0.1]))})
        out.append({"spec": spec, "positions": "repeats", "pseed": int(rng.integers(1 << 30))})
    return out


def run_case(case):
    from ..runmon import RunMonitor

    spec = case["spec"]
    ref = RunMonitor(spec, oracles=set())
    rr = ref.run()
    if rr["status"] != "ok":
        return {"status": "reference-failed", "exc": rr.get("exc"), "viol": [], "cnt": {}}
    phases = [e["phase"] for e in ref.calls]
    N = len(phases)
    mode = spec["noise"]["mode"]
    kinds = RAISES + VALS + (HE if mode == "he" else [])
    rs = np.random.RandomState(case["pseed"])
    seen_u = set()
    repeat_ks = []
    for i, e in enumerate(ref.calls):
        if e.get("u") is None or e.get("record") is False:
            continue
        b_ = e["u"].tobytes()
        if b_ in seen_u:
            repeat_ks.append(i)
        seen_u.add(b_)
    if case["positions"] == "repeats":
        ks = repeat_ks[:4] if case.get("positions") == "repeats" else []
        phases = [("repeat:" + p) if i in set(repeat_ks) else p for i, p in enumerate(phases)]
    elif case["positions"] == "all":
        j, nch = case.get("chunk") or [0, 1]
        ks = list(range(j, N, nch))
    else:
        ks = []
        for ph in sorted(set(phases)):
            idx = [i for i, p in enumerate(phases) if p == ph]
            ks += [idx[int(rs.randint(0, len(idx)))]] + ([idx[0]] if rs.rand() < 0.3 else [])
        ks = sorted(set(ks))
    viol = {}
    matrix = {}
    delivered = notdel = 0
    for k in ks:
        kk = kinds if case["positions"] == "all" else [kinds[j] for j in rs.choice(len(kinds), size=min(7, len(kinds)), replace=False)]
        for kind in kk:
            m = RunMonitor(spec, oracles=set(), fault={"k": k, "kind": kind})
            rec = m.run()
            f = m.fault
            if not f.get("delivered"):
                notdel += 1
                continue
            delivered += 1
            ph = f.get("phase")
            if k in set(repeat_ks):
                ph = "repeat:" + str(ph)
            matrix[(ph, kind)] = matrix.get((ph, kind), 0) + 1
            ctx = {"k": k, "kind": kind, "phase": ph, "mode": mode, "N_reference": N, "status": rec["status"], "exc": rec.get("exc")}
            if rec["status"] != "exception":
                viol.setdefault("C10/fault-did-not-surface", ctx)
                continue
            if kind.startswith("raise:"):
                if m.exc is not f.get("exc_obj"):
                    viol.setdefault("C10/different-exception-propagated", dict(ctx, got=repr(m.exc)[:120]))
            else:
                if type(m.exc) is not ValueError:
                    viol.setdefault("C10/invalid-value-not-ValueError", dict(ctx, got=repr(m.exc)[:160]))
            if f.get("called_after"):
                viol.setdefault("C10/target-called-again-after-fault", dict(ctx, calls_after=f["called_after"]))
            if len(m.calls) != k + 1:
                viol.setdefault("C10/call-counter-wrong-after-fault", dict(ctx, calls=len(m.calls)))
            fl = m.fl
            if fl is not None:
                if fl.func_count != k:
                    viol.setdefault("C10/func-count-counts-invalid-call", dict(ctx, func_count=int(fl.func_count)))
                n = fl.Xn + 1
                if n and not np.all(np.isfinite(fl.Y[:n])):
                    viol.setdefault("C10/invalid-value-logged", dict(ctx))
                if n and fl.noise_flag and fl.he_noise_flag and not (np.all(np.isfinite(fl.S[:n])) and np.all(fl.S[:n] > 0)):
                    viol.setdefault("C10/invalid-sd-logged", dict(ctx))
                xf = m.calls[k]["x"]
                earlier = sum(1 for e in m.calls[:k] if np.array_equal(e["x"], xf) and e.get("record") is not False)
                rows = sum(1 for i in range(n) if np.array_equal(fl.X_orig[i], xf))
                if rows > earlier:
                    viol.setdefault("C10/faulty-point-logged", dict(ctx, rows=rows, valid_earlier=earlier))
                if n != sum(1 for e in m.calls[:k] if e.get("record") is not False) - _merges(m, k):
                    viol.setdefault("C10/log-length-inconsistent-after-fault", dict(ctx, rows=n))
    return {"status": "faults", "N": N, "phases": sorted(set(phases)), "delivered": delivered, "not_delivered": notdel,
            "matrix": [[a, b, c] for (a, b), c in sorted(matrix.items())], "cnt": {"C10.faults_delivered": delivered, "C10.faults_not_delivered": notdel, "C10.reference_runs": 1},
            "viol": [{"key": a, "detail": b} for a, b in viol.items()], "mode": mode}


def _merges(m, k):
    if not (m.fl is not None and m.fl.he_noise_flag):
        return 0
    seen = set()
    mg = 0
    for e in m.calls[:k]:
        if e.get("record") is False or e.get("u") is None:
            continue
        b = e["u"].tobytes()
        if b in seen:
            mg += 1
        seen.add(b)
    return mg


def summarize(records, tier, seed):
    cnt = C.count_sum(records, "C10.")
    triples = set()
    matrix = {}
    for r in records:
        for a, b, c in r.get("matrix") or []:
            triples.add((a, b, r["mode"]))
            matrix.setdefault(a, {})
            matrix[a][b] = matrix[a].get(b, 0) + c
    inconc = None
    if cnt.get("C10.faults_delivered", 0) == 0:
        inconc = "no fault delivered"
    elif any(r.get("status") == "reference-failed" for r in records):
        inconc = "a reference run failed: " + str([r.get("exc") for r in records if r.get("status") == "reference-failed"][:1])
    phases = sorted(matrix)
    return dict(evaluations=int(cnt.get("C10.faults_delivered", 0) + cnt.get("C10.faults_not_delivered", 0)), distinct_nontrivial=len(triples), rule=RULE,
                samples=[{"phase": a, "fault": b, "mode": c} for a, b, c in sorted(triples)[:8]],
                extra={"events_checked": cnt, "phase_x_kind_matrix(delivered)": matrix, "phases_hit": phases,
                       "holes(phase,kind never delivered)": [[p, k] for p in phases for k in RAISES + VALS if k not in matrix[p]][:40]},
                inconclusive=inconc, min_nontrivial=30)
