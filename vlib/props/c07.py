"""C07 — a fixed random_seed makes runs reproducible, independent of process history."""
import json
import os
import subprocess
import tempfile

import numpy as np

from .. import env, gen
from . import common as C

LEVEL = "exploration"
RULE = ("differential monitor over whole boundary traces: for each seeded case (noise modes det/auto/he with noise drawn from NumPy's "
        "global generator, x0 given/omitted, constraints, lin/log geometry) the REFERENCE trace is the case run alone in a fresh "
        "interpreter; variants of the same case run in other fresh interpreters (i) after 1-3 unrelated optimisations with other "
        "D/options/seeds (incl. unseeded and noisy ones), (ii) after arbitrary consumption/reseeding of numpy.random and random "
        "before construction and between construction and optimize(), (iii) with other BADS objects constructed (and even run) "
        "between constructing and running the instance under test, (iv) under a different PYTHONHASHSEED, (v) a second identical "
        "fresh instance run in the same process, (vi) after / interleaved with SIBLING runs: the same problem (same D, bounds, target) "
        "under another seed, budget and initial-design size - the history most likely to collide with any per-process cache; (viii) other process-global state touched before construction: numpy print options (precision, suppress, linewidth, threshold) and floating-point error handling; (vii) OPTION-VARIANT siblings: the same problem constructed (or run) first under other non-seed option values (tol_fun, tol_mesh, n_search, hedge_gamma, ...), so that anything derived from one instance's options and kept per process shows up. Oracle: bitwise equality of the ordered list of (x bytes, returned value bytes) and "
        "of x, fval, fsd, func_count, message; the first divergent call index is the witness. Non-trivial: variant whose history "
        "measurably perturbed the global RNG state at construction or at optimize() time (state digests differ from the reference) "
        "and whose trace has >= 20 calls; distinct = distinct (case, variant kind)")
RUN_KW = {"quick": dict(timeout_case=900, wall_cap=1000), "thorough": dict(timeout_case=3200, wall_cap=3400)}
ASSUMPTIONS = ["targets with a private unseeded generator are excluded: they are not 'the same target'"]

VARIANTS = ["pre-opt", "pre-rng", "mid-construct", "mid-opt-rng", "hashseed", "second", "all", "pre-sibling", "mid-sibling", "pre-optvar", "mid-optvar", "pre-printopts"]


def cases(tier, seed):
    n = 32 if tier == "quick" else 320
    out = []
    for i in range(n):
        rng = gen.rng_for(seed, "C07", i)
        mode = ["det", "auto", "he", "declared"][i % 4]
        cons = "ball" if i % 5 == 4 else "none"
        x0mode = "in" if (cons != "none" or rng.random() < 0.5) else "none"
        spec = gen.make_spec(rng, D=int(rng.choice([1, 2, 3])), geom=str(rng.choice(["lin", "log", "unb", "tight"])), x0mode=x0mode,
                             land=str(rng.choice(["quad", "sphere", "l1", "rosen"])), where=str(rng.choice(["in", "onb"])), mode=mode, cons=cons,
                             sigma=float(rng.choice([0.05, 0.5])), noise_src="global", max_fun_evals=int(rng.choice([45, 60, 80])),
                             options={"noise_final_samples": int(rng.choice([1, 3, 10]))} if mode != "det" else {})
        # seed values users actually write, incl. the falsy 0 and non-int spellings
        sv = [0, 0, 1, 42, 2**31 - 1, 2**32 - 1, "float3", "npint7"][i % 8] if i % 2 == 0 else None
        if sv is not None:
            spec["options"]["random_seed"] = sv
        nv = 4 if tier == "quick" else 6
        vs = list(rng.choice(VARIANTS, size=nv, replace=False))
        ov = ["pre-optvar", "mid-optvar", "pre-printopts"][i % 2]
        if ov not in vs:
            vs.append(ov)
        if i % 2 == 0 and "pre-printopts" not in vs:
            vs.append("pre-printopts")
        if rng.random() < 0.3:
            spec["options"]["tol_fun"] = float(rng.choice([1e-5, 1e-2, 1.0]))
        out.append({"spec": spec, "variants": vs, "pseed": int(rng.integers(1 << 30))})
    return out


def mkplan(kind, rs):
    def opt():
        return ["opt", int(rs.randint(1000)), int(rs.choice([1, 2, 4])), bool(rs.rand() < 0.4)]

    def rngs():
        return ["rng", int(rs.randint(1, 500)), (int(rs.randint(10**6)) if rs.rand() < 0.5 else None)]

    def con():
        return ["construct", int(rs.randint(1000)), int(rs.choice([1, 3, 5]))]

    p = {"pre": [], "mid": [], "second": False, "hashseed": "0"}
    if kind == "pre-opt":
        p["pre"] = [opt() for _ in range(int(rs.randint(1, 4)))]
    elif kind == "pre-rng":
        p["pre"] = [rngs(), con(), rngs()]
    elif kind == "mid-construct":
        p["mid"] = [con(), con()]
    elif kind == "mid-opt-rng":
        p["mid"] = [rngs(), opt(), rngs()]
    elif kind == "pre-sibling":
        p["pre"] = [["sibling", int(rs.randint(10**6)), True]] + ([["sibling", int(rs.randint(10**6)), True]] if rs.rand() < 0.5 else [])
    elif kind == "mid-sibling":
        p["mid"] = [["sibling", int(rs.randint(10**6)), bool(rs.rand() < 0.7)]]
    elif kind == "pre-printopts":
        p["pre"] = [["printopts", int(rs.choice([2, 3, 4])), int(rs.choice([40, 200])), int(rs.choice([3, 1000]))], rngs()]
    elif kind == "pre-optvar":
        # FIRST instance of this D in the process: same problem under other option values (constructed only, or run)
        p["pre"] = [["sibling", int(rs.randint(10**6)), bool(rs.rand() < 0.5), True]]
    elif kind == "mid-optvar":
        p["mid"] = [["sibling", int(rs.randint(10**6)), bool(rs.rand() < 0.5), True]]
    elif kind == "hashseed":
        p["hashseed"] = str(int(rs.choice([1, 12345, 987654321])))
    elif kind == "second":
        p["second"] = True
    elif kind == "all":
        p["pre"] = [opt(), rngs(), con(), ["sibling", int(rs.randint(10**6)), True]]
        p["mid"] = [con(), rngs(), opt()]
        p["hashseed"] = "4242"
        p["second"] = True
    return p


def child(spec_path, plan, tmpd, idx):
    pp = os.path.join(tmpd, f"plan{idx}.json")
    json.dump(plan, open(pp, "w"))
    r = subprocess.run([env.PY, "-m", "vlib.c07child", spec_path, pp], cwd=env.VERIF, env=env.child_env({"PYTHONHASHSEED": plan.get("hashseed", "0")}),
                       capture_output=True, text=True, timeout=600)
    for line in r.stdout.splitlines():
        if line.startswith("C07CHILD "):
            return json.loads(line[9:])
    return {"error": (r.stderr or r.stdout)[-800:]}


def first_div(a, b):
    for i, (x, y) in enumerate(zip(a, b)):
        if x != y:
            return i
    return min(len(a), len(b)) if len(a) != len(b) else None


def run_case(case):
    rs = np.random.RandomState(case["pseed"])
    viol = {}
    cnt = {}
    nt = []
    with tempfile.TemporaryDirectory(prefix="c07-", dir=os.path.join(env.VERIF, ".work") if os.path.isdir(os.path.join(env.VERIF, ".work")) else None) as tmpd:
        sp = os.path.join(tmpd, "spec.json")
        json.dump(case["spec"], open(sp, "w"))
        ref = child(sp, {"pre": [], "mid": [], "second": False, "hashseed": "0"}, tmpd, 0)
        if "error" in ref:
            e = ref["error"]
            if "non-bound constraint" in e:
                return {"status": "start-rejected", "viol": [], "cnt": {}, "nt": []}
            return {"status": "reference-failed", "error": e, "viol": [], "cnt": {}, "nt": []}
        cnt["C07.reference_traces"] = 1
        cnt["C07.reference_calls"] = len(ref["calls"])
        for vi, kind in enumerate(case["variants"]):
            plan = mkplan(kind, rs)
            got = child(sp, plan, tmpd, vi + 1)
            if "error" in got:
                return {"status": "variant-failed", "error": got["error"], "viol": [], "cnt": cnt, "nt": nt}
            cnt["C07.variant_traces"] = cnt.get("C07.variant_traces", 0) + 1
            pairs = [("run", got["calls"], got["result"])]
            if plan["second"]:
                pairs.append(("second-run", got["calls2"], got["result2"]))
            perturbed = got["state_at_construction"] != ref["state_at_construction"] or got["state_at_optimize"] != ref["state_at_optimize"] or plan["hashseed"] != "0" or plan["second"]
            if perturbed and len(ref["calls"]) >= 20:
                nt.append(kind)
            for tag, calls, res in pairs:
                cnt["C07.traces_compared"] = cnt.get("C07.traces_compared", 0) + 1
                cnt["C07.calls_compared"] = cnt.get("C07.calls_compared", 0) + len(calls)
                d = first_div(ref["calls"], calls)
                ctx = {"variant": kind, "which": tag, "plan": plan, "mode": case["spec"]["noise"]["mode"], "x0_given": case["spec"]["x0"] is not None,
                       "n_ref": len(ref["calls"]), "n_got": len(calls)}
                if d is not None:
                    viol.setdefault("C07/trace-diverges:" + kind, dict(ctx, first_divergent_call=d))
                elif res != ref["result"]:
                    viol.setdefault("C07/result-differs:" + kind, dict(ctx, fields=[k for k in res if res[k] != ref["result"][k]]))
    return {"status": "compared", "viol": [{"key": a, "detail": b} for a, b in viol.items()], "cnt": cnt, "nt": nt, "ncalls": cnt.get("C07.reference_calls")}


def summarize(records, tier, seed):
    cnt = C.count_sum(records, "C07.")
    nt = set()
    for r in records:
        for k in r.get("nt") or []:
            nt.add((r["ci"], k))
    inconc = None
    bad = [r for r in records if r.get("status") in ("reference-failed", "variant-failed")]
    if bad:
        inconc = f"{len(bad)} child process(es) failed: " + str(bad[0].get("error"))[-300:].replace("\n", " | ")
    elif cnt.get("C07.traces_compared", 0) == 0:
        inconc = "no trace compared"
    kinds = {}
    for _, k in nt:
        kinds[k] = kinds.get(k, 0) + 1
    return dict(evaluations=int(cnt.get("C07.traces_compared", 0)), distinct_nontrivial=len(nt), rule=RULE,
                samples=[{"case": r.get("case", {}).get("spec", {}).get("noise"), "variants": r["case"]["variants"], "reference_calls": r.get("ncalls")} for r in records[:4]],
                extra={"events_checked": cnt, "nontrivial_variants_by_kind": kinds, "status": C.status_hist(records)}, inconclusive=inconc, min_nontrivial=20)
