"""C02 — no infeasible point is evaluated or returned; infeasible starts rejected."""
import numpy as np

from .. import gen
from . import common as C

LEVEL = "exploration"
RULE = ("constraint family (half-space, ball, annulus, thin band, removed orthant, measure-zero hyperplane; boolean and float "
        "returns) x geometry (incl. log transform) x noise mode x start kind (feasible / infeasible / feasible but infeasible "
        "after mesh snapping; starts a fraction of a search-mesh step from a hard bound under coarse search meshes); the monitor re-evaluates the user's own constraint on the very array passed to the target, on "
        "every filter output and on the result; infeasible given starts must raise ValueError with 0 target calls. One case in nine is followed, in the same process, by a SEQUEL run that is handed the same constraint callable OBJECT (same x-space region) with another plausible box, i.e. another internal coordinate system (multi-start / re-scaling loops do this); the sequel is judged by the same oracle. Plus every documented option moved off its default (boolean flips, halved / doubled numbers) on noisy problems under measure-zero / thin-band constraints. Non-trivial: "
        "the constraint rejected candidates at >= 2 different call sites (init/search/poll/ES) or a start was rejected; distinct "
        "= distinct (D, geometry, start, landscape, location, mode, constraint, start kind) signatures")
RUN_KW = {"quick": dict(timeout_case=120, wall_cap=600), "thorough": dict(timeout_case=240, wall_cap=3000)}
ASSUMPTIONS = ["constraint functions are deterministic functions of x (the generated ones are)"]


def cases(tier, seed):
    n = C.n_cases(tier, 126, 2800)
    out = []
    for i in range(n):
        rng = gen.rng_for(seed, "C02", i)
        kind = str(rng.choice(["halfspace", "ball", "annulus", "band", "corner", "hyperplane", "stripes"], p=[0.15, 0.15, 0.15, 0.15, 0.1, 0.1, 0.2]))
        start = str(rng.choice(["feasible", "infeasible", "snap"], p=[0.75, 0.15, 0.10]))
        geom = str(rng.choice(["lin", "tight", "log", "mixedlog", "unb", "offcentre", "logedge", "offset"], p=[0.2, 0.1, 0.2, 0.1, 0.1, 0.1, 0.1, 0.1]))
        x0mode = str(rng.choice(["in", "centre"], p=[0.8, 0.2]))
        if start == "snap":
            kind = "hyperplane"
            x0mode = "in"
            if rng.random() < 0.5:
                geom = "offset"  # snapping moves x0 by far less than 1e-5 * |x0| here
        if kind == "hyperplane" and start == "feasible":
            x0mode = "centre"
            geom = str(rng.choice(["lin", "unb"]))  # centre of a linear box is exactly on the mesh
        infeasible = start == "infeasible" and kind in ("halfspace", "ball", "corner")
        if start == "infeasible" and not infeasible:
            start = "feasible"
        mode = str(rng.choice(gen.MODES, p=[0.4, 0.15, 0.15, 0.1, 0.2]))
        opts = {}
        if rng.random() < 0.25:
            opts["noise_final_samples"] = int(rng.choice([0, 1, 3]))
        big_design = rng.random() < 0.25
        if big_design:
            # large initial designs: many design points near the constraint boundary
            opts["fun_eval_start"] = int(rng.choice([32, 128, 256], p=[0.4, 0.4, 0.2]))
        spec = gen.make_spec(rng, D=int(rng.choice([1, 2, 3], p=[0.15, 0.55, 0.3])), geom=geom, x0mode=x0mode,
                             land=str(rng.choice(["quad", "sphere", "l1", "rosen", "ramp", "bowl4"])),
                             where=str(rng.choice(["in", "onb", "out"], p=[0.5, 0.2, 0.3])), mode=mode, cons=kind, options=opts,
                             max_fun_evals=(int(opts["fun_eval_start"]) + 40 if big_design else int(rng.choice([40, 60, 90]))), infeasible_start=infeasible)
        if i % 7 == 3:
            # noisy, longer runs with the constraint ACTIVE at the optimum and a near-identity transform: the
            # incumbent re-estimation / final selection / final re-sampling paths decide what is evaluated last
            rng2 = gen.rng_for(seed, "C02", 100000 + i)
            spec = gen.make_spec(rng2, D=int(rng2.choice([1, 2, 3])), geom=str(rng2.choice(["nearid", "lin"], p=[0.7, 0.3])), x0mode="in",
                                 land=str(rng2.choice(["sphere", "quad"])), where="in", mode=str(rng2.choice(["auto", "declared", "he"])), cons="halfspace",
                                 sigma=float(rng2.choice([0.3, 1.0])), options={"noise_final_samples": int(rng2.choice([3, 10]))},
                                 max_fun_evals=int(rng2.choice([120, 160])))
            a = np.asarray(spec["cons"]["a"])
            P_ = gen.Problem(spec)
            x0t = gen.tmap(P_.x0, P_.plb, P_.pub, P_.logm)
            spec["target"]["c"] = (x0t + a * (spec["cons"]["b"] - float(a @ x0t) + 0.3)).tolist()  # optimum beyond the constraint
            start = "feasible"
        if i % 11 == 4:
            # start a fraction of a search-mesh step from a hard bound (gridisation pushes it outside, the constructor shifts it
            # one mesh step back in) x COARSE search mesh x a constraint boundary near the start: the point that ends up being
            # evaluated first must be the one whose feasibility was checked
            rng4 = gen.rng_for(seed, "C02", 300000 + i)
            spec = gen.make_spec(rng4, D=int(rng4.choice([1, 2, 3])), geom=str(rng4.choice(["lin", "offcentre", "wide", "nicelin"])), x0mode=str(rng4.choice(["efflb", "effub"])),
                                 land=str(rng4.choice(["quad", "sphere", "l1"])), where=str(rng4.choice(["in", "onb"])), mode=str(rng4.choice(["det", "det", "he"])),
                                 cons=str(rng4.choice(["ball", "halfspace", "corner", "annulus"])), options={"search_grid_number": int(rng4.choice([2, 3, 5, 7, 10]))},
                                 max_fun_evals=40)
            if rng4.random() < 0.6:
                # a half-space whose boundary lies a fraction of a mesh step INWARD of the start: the given start is
                # feasible, a start shifted one coarse mesh step into the box is not (and must then be rejected)
                P4 = gen.Problem(spec)
                x0t = gen.tmap(P4.x0, P4.plb, P4.pub, P4.logm)
                sgn4 = 1.0 if spec["x0mode"] == "efflb" else -1.0
                a4 = sgn4 * np.ones(spec["D"]) / np.sqrt(spec["D"])
                spec["cons"] = {"kind": "halfspace", "ret": str(rng4.choice(["bool", "float"])), "a": a4.tolist(), "b": float(a4 @ x0t + rng4.uniform(0.01, 0.08))}
            start = "feasible"
        case = {"spec": spec, "start": start}
        if i % 9 == 5:
            # SEQUEL sharing the constraint OBJECT: the same x-space region, the same callable object, but another plausible box
            # (hence another internal coordinate system) in a second run of the same process - what a multi-start / re-scaling
            # loop does.  Anything remembered per constraint object or per internal coordinate must not leak between the runs.
            rng3 = gen.rng_for(seed, "C02", 200000 + i)
            specA = gen.make_spec(rng3, D=int(rng3.choice([1, 2, 3], p=[0.2, 0.5, 0.3])), geom=str(rng3.choice(["lin", "offcentre", "wide"])), x0mode="in",
                                  land=str(rng3.choice(["quad", "sphere", "l1", "rosen"])), where=str(rng3.choice(["in", "onb", "out"])),
                                  mode=str(rng3.choice(["det", "det", "he", "auto"])), cons=str(rng3.choice(["ball", "halfspace", "annulus", "corner", "stripes"])),
                                  max_fun_evals=int(rng3.choice([40, 60])))
            PA = gen.Problem(specA)
            if np.all(np.isfinite(PA.lb)) and np.all(np.isfinite(PA.ub)):
                specB = {k: (dict(v) if isinstance(v, dict) else v) for k, v in specA.items()}
                ctr, half = 0.5 * (PA.plb + PA.pub), 0.5 * (PA.pub - PA.plb)
                sc = float(rng3.choice([0.5, 2.0, 3.0]))
                marg = 2e-3 * (PA.ub - PA.lb)
                nplb, npub = np.maximum(ctr - sc * half, PA.lb + marg), np.minimum(ctr + sc * half, PA.ub - marg)
                if np.all(npub - nplb > 1e-3 * (PA.ub - PA.lb)) and not (np.allclose(nplb, PA.plb) and np.allclose(npub, PA.pub)):
                    specB["plb"], specB["pub"] = nplb.tolist(), npub.tolist()
                    specB["cons_frame"] = {"lb": specA["lb"], "ub": specA["ub"], "plb": specA["plb"], "pub": specA["pub"]}
                    case = {"spec": specA, "start": "feasible", "sequel": specB}
        out.append(case)
    # every documented option moved off its default, on noisy problems under measure-zero / thin-band constraints (the
    # variations of the C09 family that take the rare paths): feasibility must not depend on option values
    from . import c09

    seen = set()
    for c in c09.option_variation_cases("thorough", seed, hard=True):
        if c.get("hard") and (tier != "quick" or tuple(c["option"]) not in seen):
            seen.add(tuple(c["option"]))
            out.append({"spec": c["spec"], "start": "feasible", "optvar": c["option"]})
    return out


def run_case(case):
    spec = case["spec"]
    P = gen.Problem(spec)
    given_infeasible = None
    if P.x0 is not None:
        given_infeasible = bool(np.asarray(P.cons(P.x0[None, :])).ravel()[0] > 0)
        # the constructor moves a start that lies within 0.1% (of the hard range, in LINEAR units - a large band for
        # log-scaled boxes) of a hard bound and checks feasibility at the moved point: such starts are not judged by
        # the 'given start infeasible => rejected' sub-oracle (the evaluated points are still judged)
        rngw = np.where(np.isfinite(P.ub - P.lb), P.ub - P.lb, np.inf)
        with np.errstate(all="ignore"):
            moved = np.any((np.isfinite(P.lb)) & (P.x0 < P.lb + 1.001e-3 * rngw)) or np.any((np.isfinite(P.ub)) & (P.x0 > P.ub - 1.001e-3 * rngw))
        if given_infeasible and moved:
            given_infeasible = None
    holder = None
    if case.get("sequel") is not None:
        from ..runmon import SharedCons

        holder = SharedCons()
    rec = C.run_monitored(case, {"C02"}, **({"shared_cons": holder} if holder is not None else {}))
    if holder is not None:
        rec2 = C.run_monitored({"spec": case["sequel"]}, {"C02"}, shared_cons=holder)
        rec["cnt"]["C02.sequel_runs_sharing_the_constraint_object"] = 1
        rec["cnt"]["C02.sequel_target_points"] = (rec2.get("cnt") or {}).get("C02.target_points", 0)
        rec["sequel_status"] = rec2.get("status")
        for v in rec2.get("viol") or []:
            v = dict(v)
            v["detail"] = dict(v.get("detail") or {}, run="sequel: same constraint object, other plausible box", sequel_plb=case["sequel"]["plb"], sequel_pub=case["sequel"]["pub"])
            rec["viol"].append(v)
        for k, n in (rec2.get("cnt") or {}).items():
            if k.startswith("cons_rejections."):
                rec["cnt"][k] = rec["cnt"].get(k, 0) + n
    rec["given_infeasible"] = given_infeasible
    rec["start"] = case["start"]
    if given_infeasible is None and P.x0 is not None:
        rec["cnt"]["C02.infeasible_starts_moved_by_constructor_not_judged"] = 1 if case["start"] == "infeasible" else 0
    if given_infeasible:
        ok = rec["status"] == "ctor-exception" and rec["exc"]["type"] == "ValueError" and rec["ncalls"] == 0
        rec["cnt"]["C02.infeasible_starts_judged"] = 1
        if not ok:
            rec["viol"].append({"key": "C02/infeasible-start-not-rejected-before-first-call",
                                "detail": {"status": rec["status"], "exc": rec.get("exc"), "ncalls": rec["ncalls"]}})
    if rec["status"] == "ctor-exception" and rec["ncalls"] > 0:
        rec["viol"].append({"key": "C02/start-rejected-after-target-call", "detail": {"ncalls": rec["ncalls"], "exc": rec.get("exc")}})
    return rec


def summarize(records, tier, seed):
    nt = set()
    rejected = 0
    for r in records:
        f = set(r.get("flags") or [])
        sites = {x.split("@")[1] for x in f if x.startswith("cons-rejected@")}
        if len(sites) >= 2 or (r.get("status") == "ctor-exception" and r.get("ncalls") == 0):
            nt.add(C.sig_of(r["case"], r.get("start")))
        if r.get("status") == "ctor-exception":
            rejected += 1
    cnt = C.count_sum(records, "C02.")
    rej = C.count_sum(records, "cons_rejections.")
    extra = {"events_checked": cnt, "candidates_rejected_by_constraint_per_site": rej, "status": C.status_hist(records),
             "starts_rejected": rejected, "starts_by_kind": {k: sum(1 for r in records if r.get("start") == k) for k in ("feasible", "infeasible", "snap")},
             "rejected_snap_starts": sum(1 for r in records if r.get("start") == "snap" and r.get("status") == "ctor-exception"),
             "aborts_by_other_defects": C.other_property_aborts(records, "C02")}
    inconc = None
    if cnt.get("C02.target_points", 0) == 0:
        inconc = "constraint cross-check never reached"
    elif C.aborted_fraction(records) > 0.2:
        inconc = "more than 20% of runs aborted by defects of other properties"
    return dict(evaluations=len(records), distinct_nontrivial=len(nt), rule=RULE,
                samples=C.pick_samples(records, lambda r: len([x for x in (r.get("flags") or []) if x.startswith("cons-rejected@")]) >= 2),
                extra=extra, inconclusive=inconc, min_nontrivial=10)
