"""C19 — iteration history and OptimizeResult are consistent records of the run."""
import copy

import numpy as np

from .. import gen
from . import common as C

LEVEL = "exploration"
RULE = ("(a) runs in all noise modes (noisy modes dominate: incumbents are re-estimated and swapped for earlier iterates), 80-200 "
        "evaluations: offline checker of iteration_history vs the boundary call log (recorded x evaluated; recorded value observed "
        "there, or within the range of observations under specified noise; u<->x through the transformer; func_count monotone and "
        "<= final; result.x among the iterates, last one with equal value for deterministic targets), the incumbent tuple checked at "
        "EVERY loop end through the probe, result fields vs problem/final state. (b) OptimizeResult API on every run: same key set "
        "for all runs/modes, subset of the declared keys and superset of the documented attributes, item == attribute access, "
        "unknown key -> ValueError on set, unknown attribute -> AttributeError, stored arrays unchanged after mutating the optimiser "
        "and optimising again. (c) IterationHistory container vs a dict-of-lists reference model over random sequences of "
        "record/record_iteration/__setitem__/read/del with mutable values mutated after storing, negative/sparse indices, unknown "
        "keys. distinct_nontrivial = noisy runs where the incumbent was swapped for an earlier iterate (measured) + container "
        "sequences containing a post-store mutation and a ValueError case")
RUN_KW = {"quick": dict(timeout_case=300, wall_cap=800), "thorough": dict(timeout_case=600, wall_cap=3300)}
ASSUMPTIONS = ["the declared key list contains 'status', never populated: recorded, not judged (statement does not say which list is 'the fixed set')"]

DOCUMENTED = ["fun", "non_box_cons", "x0", "x", "fval", "fsd", "yval_vec", "ysd_vec", "mesh_size", "func_count", "iterations", "message",
              "problem_type", "total_time", "overhead", "random_seed", "version"]


def container_sequences(n, seed):
    from pybads.utils.iteration_history import IterationHistory
    from ..models import HistoryModel, Rec

    rs = np.random.RandomState(seed)
    viol = {}
    nontriv = 0
    ops_total = 0
    for s in range(n):
        keys = ["a", "b", "c", "gp"][: rs.randint(2, 5)]
        real = IterationHistory(list(keys))
        model = HistoryModel(keys)
        held = []
        had_mut = had_err = False
        trace = []
        for step in range(rs.randint(5, 40)):
            op = rs.choice(["record", "record", "record_iteration", "setitem", "mutate", "read", "del", "badkey", "negit"], p=[0.3, 0.15, 0.15, 0.05, 0.15, 0.08, 0.02, 0.05, 0.05])
            ops_total += 1

            def mkval():
                t = rs.randint(7)
                if t == 6:
                    # an OBJECT-dtype array holding mutable elements (a ragged per-iteration set of points): a deep copy must
                    # reach the inner objects too
                    v = np.empty(2, dtype=object)
                    v[0] = [int(rs.randint(5))]
                    v[1] = rs.randn(2)
                    held.append(v)
                    return v
                if t == 0:
                    return float(rs.randn())
                if t == 1:
                    return "s%d" % rs.randint(100)
                if t == 2:
                    return None
                if t == 3:
                    v = rs.randn(rs.randint(1, 4))
                    held.append(v)
                    return v
                if t == 4:
                    v = [[rs.randint(10)], [rs.randint(10), rs.randint(10)]]
                    held.append(v)
                    return v
                v = {"k": [rs.randint(5)]}
                held.append(v)
                return v

            def both(fr, fm):
                er = em = None
                try:
                    fr()
                except Exception as e:
                    er = type(e).__name__
                try:
                    fm()
                except Exception as e:
                    em = type(e).__name__
                return er, em

            live = [k for k in keys if k in model.d]
            if op == "record" and live:
                k = live[rs.randint(len(live))]
                if not (model.d[k] is None or isinstance(model.d[k], Rec)):
                    continue  # recording into a key set to a scalar is API misuse
                it = int(rs.choice([0, 1, 2, 3, 5, 9]))
                v = mkval()
                trace.append(("record", k, it))
                er, em = both(lambda: real.record(k, v, it), lambda: model.record(k, v, it))
            elif op == "record_iteration" and live:
                ks = [k for k in live if model.d[k] is None or isinstance(model.d[k], Rec)]
                if not ks:
                    continue
                kv = {k: mkval() for k in ks[: rs.randint(1, len(ks) + 1)]}
                it = int(rs.choice([0, 1, 4]))
                trace.append(("record_iteration", list(kv), it))
                er, em = both(lambda: real.record_iteration(kv, it), lambda: model.record_iteration(kv, it))
            elif op == "setitem" and live:
                k = live[rs.randint(len(live))]
                if isinstance(model.d[k], Rec):
                    continue
                v = mkval()
                trace.append(("setitem", k))
                er, em = both(lambda: real.__setitem__(k, v), lambda: model.setitem(k, v))
            elif op == "mutate" and held:
                v = held[rs.randint(len(held))]
                had_mut = True
                trace.append(("mutate",))
                if isinstance(v, np.ndarray) and v.dtype == object:
                    v[0].append(55)
                    v[1] += 7.0
                elif isinstance(v, np.ndarray):
                    v += 1000.0
                elif isinstance(v, list):
                    v[0].append(99)
                else:
                    v["k"].append(77)
                er = em = None
            elif op == "del" and len(live) > 1:
                k = live[rs.randint(len(live))]
                trace.append(("del", k))
                er, em = both(lambda: real.__delitem__(k), lambda: model.delete(k))
            elif op == "badkey":
                had_err = True
                trace.append(("badkey",))
                which = rs.randint(3)
                if which == 0:
                    er, em = both(lambda: real.record("nope", 1, 0), lambda: model.record("nope", 1, 0))
                elif which == 1:
                    er, em = both(lambda: real.__setitem__("nope", 1), lambda: model.setitem("nope", 1))
                else:
                    er, em = both(lambda: real.record_iteration({"nope": 1}, 0), lambda: model.record_iteration({"nope": 1}, 0))
            elif op == "negit" and live:
                had_err = True
                k = live[0]
                trace.append(("negit", k))
                if rs.rand() < 0.5:
                    er, em = both(lambda: real.record(k, 1, -1), lambda: model.record(k, 1, -1))
                else:
                    er, em = both(lambda: real.record_iteration({k: 1}, -2), lambda: model.record_iteration({k: 1}, -2))
            else:
                er = em = None
            if er != em:
                viol.setdefault("C19/container-error-behaviour-differs", {"trace": trace[-6:], "real": er, "model": em})
                break
            # compare contents
            bad = None
            if set(real.keys()) != set(model.d.keys()):
                bad = ("keys", sorted(real.keys()), sorted(model.d.keys()))
            else:
                for k in model.d:
                    rv, mv = real[k], model.d[k]
                    if not _same(rv, mv):
                        bad = (k, repr(rv)[:120], repr(mv)[:120])
                        break
            if bad:
                viol.setdefault("C19/container-differs-from-model", {"trace": trace[-6:], "where": bad})
                break
        if had_mut and had_err:
            nontriv += 1
    return n, ops_total, nontriv, viol


def _same(rv, mv):
    """top level: a model list is the per-iteration record array of the real container"""
    from ..models import Rec

    if isinstance(mv, Rec):
        if not isinstance(rv, np.ndarray) or rv.dtype != object or len(rv) != len(mv):
            return False
        return all(_same_val(a, b) for a, b in zip(rv, mv))
    return _same_val(rv, mv)


def _same_val(rv, mv):
    if isinstance(mv, np.ndarray) and mv.dtype == object:
        return isinstance(rv, np.ndarray) and rv.dtype == object and rv.shape == mv.shape and all(_same_val(a, b) for a, b in zip(rv.ravel(), mv.ravel()))
    if isinstance(mv, np.ndarray):
        return isinstance(rv, np.ndarray) and rv.shape == mv.shape and np.array_equal(rv, mv)
    if isinstance(mv, dict):
        return isinstance(rv, dict) and rv.keys() == mv.keys() and all(_same_val(rv[k], mv[k]) for k in mv)
    if isinstance(mv, (list, tuple)):
        return isinstance(rv, (list, tuple)) and len(rv) == len(mv) and all(_same_val(a, b) for a, b in zip(rv, mv))
    if mv is None:
        return rv is None
    return type(rv) == type(mv) and rv == mv


def cases(tier, seed):
    out = []
    for k in range(16):
        out.append({"kind": "container", "n": 150 if tier == "quick" else 2000, "seed": seed * 100 + k})
    n = C.n_cases(tier, 90, 1800)
    for i in range(n):
        rng = gen.rng_for(seed, "C19", i)
        D = int(rng.choice([1, 2, 3], p=[0.3, 0.45, 0.25]))
        mode = str(rng.choice(gen.MODES, p=[0.2, 0.2, 0.15, 0.1, 0.35]))
        opts = {}
        if mode != "det" and rng.random() < 0.4:
            opts["noise_final_samples"] = int(rng.choice([0, 1, 3]))
        if rng.random() < 0.2:
            opts["search_n_try"] = int(rng.choice([0, 1]))
        cons = str(rng.choice(["none", "ball", "halfspace"], p=[0.8, 0.1, 0.1]))
        spec = gen.make_spec(rng, D=D, geom=str(rng.choice(["lin", "tight", "log", "unb", "mixedunb", "mixedlog"])),
                             x0mode=("in" if cons != "none" else str(rng.choice(["in", "none", "onlb", "outpl"]))),
                             land=str(rng.choice(["quad", "sphere", "l1", "rosen", "bowl4", "stair"])), where=str(rng.choice(["in", "onb"], p=[0.7, 0.3])),
                             mode=mode, cons=cons, options=opts, sigma=float(10 ** rng.uniform(-2, 0.7)),
                             max_fun_evals=int(rng.choice([80, 120, 160, 200])))
        out.append({"kind": "run", "spec": spec})
    for j_ in range(len(out)):
        c_ = out[j_]
        if c_.get("kind") == "run" and j_ % 7 == 3 and isinstance(c_["spec"]["options"].get("random_seed"), int):
            c_["spec"]["seed_spelling"] = ["npint64", "npint32", "0d", "float"][(j_ // 7) % 4]
    out += C.option_variation_slice("C19", tier, seed, kind="run")
    return out


def run_case(case):
    if case["kind"] == "container":
        n, ops, nontriv, viol = container_sequences(case["n"], case["seed"])
        return {"status": "container", "sequences": n, "ops": ops, "nontrivial": nontriv, "cnt": {"C19.container_sequences": n, "C19.container_ops": ops},
                "viol": [{"key": k, "detail": v} for k, v in viol.items()]}
    from ..runmon import RunMonitor

    m = RunMonitor(case["spec"], oracles={"C19"}, prelude=C.want_prelude(case))
    # count swaps: wrap _re_evaluate_history_ is not needed; detect from the loop trace afterwards
    rec = m.run()
    out = C.slim(rec, case)
    if m.result is not None:
        _api_checks(m, out)
    return out


def _api_checks(m, out):
    from pybads.bads.optimize_result import OptimizeResult

    r, b = m.result, m.bads
    viol = out["viol"]
    out["cnt"]["C19.api_checks"] = 1
    keys = sorted(dict.keys(r))
    out["result_keys"] = keys
    declared = list(OptimizeResult._keys)
    if not set(keys) <= set(declared):
        viol.append({"key": "C19/result-has-undeclared-key", "detail": {"extra": sorted(set(keys) - set(declared))}})
    if not set(DOCUMENTED) <= set(keys):
        viol.append({"key": "C19/result-lacks-documented-field", "detail": {"missing": sorted(set(DOCUMENTED) - set(keys))}})
    for k in keys:
        try:
            a, i = getattr(r, k), r[k]
            if a is not i:
                viol.append({"key": "C19/result-attribute-differs-from-item", "detail": {"key": k}})
        except Exception as e:
            viol.append({"key": "C19/result-field-not-readable", "detail": {"key": k, "exc": repr(e)}})
    try:
        r["no_such_key"] = 1
        viol.append({"key": "C19/result-accepts-unknown-key", "detail": {}})
    except ValueError:
        pass
    except Exception as e:
        viol.append({"key": "C19/result-unknown-key-wrong-exception", "detail": {"exc": repr(e)}})
    try:
        r.no_such_attribute
        viol.append({"key": "C19/result-unknown-attribute-no-error", "detail": {}})
    except AttributeError:
        pass
    except Exception as e:
        viol.append({"key": "C19/result-unknown-attribute-wrong-exception", "detail": {"exc": repr(e)}})
    # copies: later use of the optimiser (running it again, mutating its state) must not change the stored values
    # (fields that are missing altogether have been reported above; the copy test covers those that exist)
    snap = {k: copy.deepcopy(r[k]) for k in ("x", "x0", "yval_vec", "ysd_vec", "fval", "fsd", "func_count", "mesh_size", "message") if k in keys}
    if (out.get("ncalls") or 0) % 3 == 0:
        try:
            b.options["max_fun_evals"] = int(b.function_logger.func_count) + 25
            b.optimize()  # second run on the same object (its own result is not judged)
            out["cnt"]["C19.second_optimize_on_same_object"] = 1
        except Exception as e:
            out["second_optimize_exc"] = type(e).__name__
    try:
        b.x0 += 123.0
        b.x += 456.0
        b.u += 7.0
        if "yval_vec" in b.optim_state and isinstance(b.optim_state["yval_vec"], np.ndarray):
            b.optim_state["yval_vec"] += 9.0
        if "ysd_vec" in b.optim_state and isinstance(b.optim_state["ysd_vec"], np.ndarray):
            b.optim_state["ysd_vec"] += 9.0
        b.function_logger.X_orig[:] = -1.0
        b.mesh_size = -5.0
    except Exception as e:
        out["mutation_error"] = repr(e)
    for k, v in snap.items():
        now = r[k]
        same = (now is None and v is None) or (isinstance(v, np.ndarray) and isinstance(now, np.ndarray) and np.array_equal(v, now, equal_nan=True)) or (not isinstance(v, np.ndarray) and now == v)
        if not same:
            viol.append({"key": "C19/result-changed-by-later-use-of-optimiser", "detail": {"field": k, "before": repr(v)[:100], "after": repr(now)[:100]}})


def summarize(records, tier, seed):
    runs = [r for r in records if r["case"]["kind"] == "run"]
    cont = [r for r in records if r.get("status") == "container"]
    cnt = C.count_sum(records, "C19.")
    keysets = {}
    for r in runs:
        if r.get("result_keys"):
            keysets.setdefault(tuple(r["result_keys"]), []).append(r["case"]["spec"]["noise"]["mode"])
    extra_viol = []
    if len(keysets) > 1:
        extra_viol = [{"keyset": list(k), "modes": sorted(set(v)), "runs": len(v)} for k, v in keysets.items()]
    nt_runs = set()
    for r in runs:
        if r.get("status") == "ok" and "incumbent-swapped-to-earlier-iterate" in (r.get("flags") or []):
            nt_runs.add(C.sig_of(r["case"]))
    extra = {"events_checked": cnt, "run_status": C.status_hist(runs), "distinct_result_key_sets": len(keysets),
             "result_key_sets": [{"n_keys": len(k), "runs": len(v), "modes": sorted(set(v))} for k, v in keysets.items()],
             "declared_but_never_populated": sorted(set(["x", "x0", "success", "status", "message", "fun", "func_count", "iterations", "target_type", "problem_type", "mesh_size", "non_box_cons", "yval_vec", "ysd_vec", "fval", "fsd", "total_time", "overhead", "random_seed", "algorithm", "version"]) - set(next(iter(keysets), ()))),
             "runs_with_incumbent_swapped_to_earlier_iterate": sum(1 for r in runs if "incumbent-swapped-to-earlier-iterate" in (r.get("flags") or [])),
             "incumbent_swaps_total": C.count_sum(records, "incumbent_swaps"),
             "container_sequences": sum(r["sequences"] for r in cont), "container_ops": sum(r["ops"] for r in cont),
             "aborts_by_other_defects": C.other_property_aborts(runs, "C19")}
    if extra_viol:
        # a key set that depends on the run/mode is a violation of 'fixed set of fields'
        records[0].setdefault("viol", []).append({"key": "C19/result-key-set-varies-between-runs", "detail": extra_viol})
    inconc = None
    for need in ("C19.history_records", "C19.loop_ends", "C19.api_checks", "C19.container_ops"):
        if cnt.get(need, 0) == 0:
            inconc = f"monitor never reached: {need}"
    if not inconc and C.aborted_fraction(runs) > 0.2:
        inconc = "more than 20% of runs aborted by defects of other properties"
    return dict(evaluations=len(records), distinct_nontrivial=int(len(nt_runs) + sum(r["nontrivial"] for r in cont)), rule=RULE,
                samples=C.pick_samples(runs, lambda r: r["case"]["spec"]["noise"]["mode"] != "det", 3), extra=extra, inconclusive=inconc, min_nontrivial=20)
