"""C09 — every valid problem runs to completion in every supported mode."""
import numpy as np

from .. import gen
from . import common as C

LEVEL = "exploration"
RULE = ("cross product noise mode x constraint family (incl. measure-zero hyperplane and thin band: every ES candidate infeasible / "
        "empty search set) x geometry (log x constraints) x budget (incl. N_init-1, N_init, tiny, 1, 2) x max_iter 1,2 x "
        "noise_final_samples 0,1 x repeated-point pressure under specified noise (tight boxes, coarse tol_mesh) x constant/plateau "
        "targets x one-variable constrained problems with a coarse final mesh (local GP refitted on two training points) x many seeds; plus ONE documented option at a time moved off its default (every boolean flipped, positive numbers halved / doubled) on short problems in all four noise modes (quick: every boolean / explicit value in the deterministic and one noisy mode + every numeric variation in one mode; thorough: all x all modes; each variation once more on a NOISY problem under a measure-zero / thin-band constraint, where the rare paths - every ES candidate infeasible, empty search set - are taken; plus random PAIRS of variations: quick 60, thorough 900). Refuting event: any exception escaping the constructor of a spec-valid problem or optimize() that was "
        "not raised by the user's callables; classified by (type, innermost pybads file:function). Non-trivial/distinct = distinct "
        "(mode, constraint, geometry, landscape, rare-path flags) where rare-path flags are MEASURED at the seams (empty ES "
        "generation, empty search set, duplicate merge, second GP fit, local refit)")
RUN_KW = {"quick": dict(timeout_case=150, wall_cap=700), "thorough": dict(timeout_case=400, wall_cap=3300)}
# options whose non-default value the SOURCE ITSELF marks as unsupported / not implemented (a comment or a TODO at the place
# that reads them, or a value only the unported MATLAB/VBMC code understands): not "valid option combinations"
UNSUPPORTED = {"acq_hedge": "bads.py: 'Acquisition hedge (acquisition portfolio) not supported yet'",
               "fit_lik": "fixed likelihood needs a 'delta' hyperprior that gpyreg does not have",
               "warp_func": "gaussian_process_train.py: 'TODO warp function'",
               "gp_samples": "docs: only optimisation of hyperparameters is supported", "stobads": "varied in its own family (with the constructor's gamma_uncertain_interval)",
               "plot": "opens figures", "restarts": "unused", "fun_values": "pre-evaluated values: separate interface",
               "periodic_vars": "separate interface"}
FRACTIONS = {"gp_mean_percentile": 100.0, "hpd_frac": 1.0, "improvement_quantile": 0.9, "final_quantile": 0.9, "tol_poi": 1.0, "normalpha_level": 1.0}
DEGENERATE_HALF = {"poll_mesh_multiplier"}  # 2.0 / 2 = 1: a mesh that never changes size


ASSUMPTIONS = ["option values that the source itself marks as unsupported are not 'valid option combinations' and are not varied: " + ", ".join(sorted(UNSUPPORTED)),
               "generated problems are valid by construction (ctor ValueError for an infeasible snapped start is legitimate and not judged)"]

RARE = ("empty-es-generation", "empty-search-set", "duplicate-merge", "second-gp-fit", "local-refit", "es-population-shrunk", "gp-fit-retried")


def cases(tier, seed):
    n = C.n_cases(tier, 260, 5200)
    out = []
    n_edge = 0
    for i in range(n):
        rng = gen.rng_for(seed, "C09", i)
        D = int(rng.choice([1, 2, 3, 4, 5], p=[0.3, 0.35, 0.2, 0.1, 0.05]))
        mode = str(rng.choice(gen.MODES, p=[0.3, 0.15, 0.15, 0.1, 0.3]))
        fam = str(rng.choice(["plain", "cons-hard", "dup-pressure", "budget-edge", "plateau", "iter-edge", "tiny-sd", "d1-cons"], p=[0.13, 0.17, 0.19, 0.17, 0.1, 0.08, 0.07, 0.09]))
        opts = {}
        cons = "none"
        geom = str(rng.choice(gen.GEOMS))
        land = str(rng.choice(["quad", "sphere", "l1", "rosen", "stair", "ramp", "needle", "maxkink", "bowl4"]))
        x0mode = str(rng.choice(["in", "none", "onlb", "centre", "outpl"], p=[0.45, 0.2, 0.15, 0.1, 0.1]))
        mfe = int(rng.choice([40, 60, 90]))
        sigma = None
        if fam == "cons-hard":
            cons = str(rng.choice(["hyperplane", "band", "annulus", "corner", "ball"], p=[0.35, 0.25, 0.15, 0.15, 0.1]))
            x0mode = "centre" if cons == "hyperplane" else "in"
            if cons == "hyperplane":
                geom = str(rng.choice(["lin", "unb"]))
                D = max(D, 2)
        elif fam == "dup-pressure":
            mode = str(rng.choice(["he", "declared", "auto"], p=[0.7, 0.15, 0.15]))
            geom = str(rng.choice(["tight", "lin", "offcentre"]))
            opts["tol_mesh"] = float(rng.choice([0.25, 0.1, 0.03]))
            D = int(rng.choice([1, 2]))
            mfe = int(rng.choice([80, 120, 160]))
            land = str(rng.choice(["sphere", "l1", "ramp"]))
            if rng.random() < 0.5:
                opts["search_n_try"] = int(rng.choice([0, 1]))
        elif fam == "budget-edge":
            edge = [2, 3, 4, 5, 6, 8, 10, 17, 20, 21, 22, 25, 30, 33, 34, 35, 36, 40, 43, 44, 45, 1]
            mfe = edge[n_edge % len(edge)]  # every edge budget appears in every run of the check (several modes each)
            if mfe <= 6:
                mode = ["det", "auto", "declared", "he"][(n_edge // len(edge)) % 4]
            n_edge += 1
            if rng.random() < 0.5:
                opts["noise_final_samples"] = int(rng.choice([0, 1, 10]))
        elif fam == "tiny-sd":
            # an (almost) deterministic target that REPORTS a tiny SD: GP fits fail naturally and the retry /
            # point-pruning paths of the robust refit run with a noise vector present
            mode = "he"
            sigma = float(rng.choice([1e-8, 1e-6, 1e-4]))
            D = int(rng.choice([2, 3, 4]))
            land = str(rng.choice(["quad", "sphere", "rosen", "bowl4"]))
            geom = str(rng.choice(["lin", "tight", "unb"]))
            mfe = int(rng.choice([120, 160, 200]))
            x0mode = "in"
        elif fam == "d1-cons":
            # one variable, a constraint that removes most of the initial design and a coarse final mesh: the local GP is
            # refitted on TWO (or a handful of equally spaced) training points - degenerate empirical priors
            D = 1
            cons = str(rng.choice(["annulus", "ball", "halfspace"], p=[0.5, 0.25, 0.25]))
            geom = str(rng.choice(["lin", "offcentre", "tight", "wide"]))
            x0mode = "in"
            mode = str(rng.choice(["det", "det", "auto", "he"]))
            land = str(rng.choice(["sphere", "quad", "l1"]))
            opts["tol_mesh"] = float(rng.choice([0.25, 0.1]))
            if rng.random() < 0.3:
                opts["force_poll_mesh"] = True
            mfe = 40
        elif fam == "plateau":
            land = str(rng.choice(["const", "stair"]))
            mode = str(rng.choice(["det", "auto"]))
        elif fam == "iter-edge":
            opts["max_iter"] = int(rng.choice([1, 2]))
            if rng.random() < 0.5:
                opts["noise_final_samples"] = int(rng.choice([0, 1]))
        if cons != "none" and x0mode == "none":
            x0mode = "in"
        if mode == "he" and rng.random() < 0.3:
            opts["noise_size"] = [0.5, 0, 2.0][int(rng.integers(3))]  # documented basic option (ignored with a warning under specified noise)
        if rng.random() < 0.15:
            opts["complete_poll"] = True
        if rng.random() < 0.1:
            opts["nonlinear_scaling"] = False
        spec = gen.make_spec(rng, D=D, geom=geom, x0mode=x0mode, land=land, mode=mode, cons=cons, options=opts, max_fun_evals=mfe, sigma=sigma)
        if mode == "he" and rng.random() < 0.25:
            # the other documented spelling of specified noise: specify_target_noise=True with uncertainty_handling left
            # empty (what the library's own error message recommends)
            spec["options"].pop("uncertainty_handling", None)
        out.append({"spec": spec, "fam": fam})
    # the Sto-BADS acceptance rule (option stobads=True) with and without the constructor's gamma_uncertain_interval argument
    for j in range(12 if tier == "quick" else 120):
        rng = gen.rng_for(seed, "C09", 950000 + j)
        spec = gen.make_spec(rng, D=int(rng.choice([1, 2, 3])), geom=str(rng.choice(["lin", "log", "unb"])), x0mode="in", land=str(rng.choice(["quad", "l1", "rosen"])),
                             mode=["declared", "he", "auto", "det"][j % 4], options={"stobads": True}, max_fun_evals=int(rng.choice([60, 90])))
        g_ = [None, 1.0, 2.58][j % 3]
        if g_ is not None:
            spec["ctor_extra"] = {"gamma_uncertain_interval": g_}
        out.append({"spec": spec, "fam": "stobads"})
    ov = option_variation_cases(tier, seed, hard=True)
    out += ov
    # random PAIRS of those variations (two options off their defaults at once), on plain and on rare-path problems
    singles = {}
    for c in ov:
        singles.setdefault(tuple(c["option"]), c["spec"]["options"][c["option"][0]])
    keys = sorted(singles)
    rs = np.random.RandomState(seed + 4711)
    for t in range(60 if tier == "quick" else 900):
        if len(keys) < 2:
            break
        a, b = rs.choice(len(keys), 2, replace=False)
        ka, kb = keys[a], keys[b]
        if ka[0] == kb[0]:
            continue
        rng = gen.rng_for(seed, "C09", 850000 + t)
        mode = str(rng.choice(["det", "auto", "declared", "he"]))
        pair = {ka[0]: singles[ka], kb[0]: singles[kb]}
        if rng.random() < 0.3:
            spec = gen.make_spec(rng, D=int(rng.choice([2, 3])), geom=str(rng.choice(["lin", "unb"])), x0mode="centre", land="quad", mode=(mode if mode != "det" else "auto"),
                                 cons=str(rng.choice(["hyperplane", "band"])), options=pair, max_fun_evals=60)
        else:
            spec = gen.make_spec(rng, D=int(rng.choice([1, 2, 3])), geom=str(rng.choice(["lin", "log", "unb"])), x0mode="in", land=str(rng.choice(["quad", "l1", "rosen"])),
                                 mode=mode, options=pair, max_fun_evals=60)
        out.append({"spec": spec, "fam": "option-pairs", "option": [ka[0] + "+" + kb[0], "pair"]})
    # deterministic probes of the two OPEN known findings of this property, so that every run reports them
    for k, extra in enumerate(({"max_fun_evals": 1}, {"hedge_gamma": 0})):
        rng = gen.rng_for(seed, "C09", 900000 + k)
        spec = gen.make_spec(rng, D=2, geom="lin", x0mode="in", land="quad", mode="det", options=dict(extra), max_fun_evals=extra.get("max_fun_evals", 60))
        out.append({"spec": spec, "fam": "known-finding-probe"})
    return out


def option_variation_cases(tier, seed, Dchoices=(1, 2, 3), lands=("quad", "l1", "rosen"), budgets=(50, 70), hard=False):
    """One documented option at a time moved off its default - every boolean flipped, every positive number halved / doubled
    (integers stay >= 1, fractions stay inside their range) - on short deterministic and noisy problems."""
    import os

    from .. import env
    from ..models import reference_options

    d = os.path.join(env.REPO, "pybads", "bads", "option_configs")
    paths = [os.path.join(d, "basic_bads_options.ini"), os.path.join(d, "advanced_bads_options.ini")]
    out = []
    try:
        ref2 = reference_options(paths, 2, {})
    except Exception:
        return out
    skip = {"display", "max_fun_evals", "random_seed", "uncertainty_handling", "specify_target_noise", "noise_size", "max_iter"} | set(UNSUPPORTED)
    # (noise_size is varied through the explicit "set" entries below)
    var = []
    for k in sorted(ref2):
        v = ref2[k]
        if k in skip:
            continue
        if isinstance(v, (bool, np.bool_)):
            var.append((k, "flip", None))
        elif isinstance(v, (int, np.integer)) and int(v) >= 2:
            var += [(k, "half", None), (k, "double", None)]
        elif isinstance(v, (float, np.floating)) and np.isfinite(v) and v > 0:
            var += [(k, "half", None), (k, "double", None)] if k not in DEGENERATE_HALF else [(k, "double", None)]
    # options whose default is None / non-numeric but which have documented numeric values
    # (tol_noise = 0: "differ by MORE than tol_noise" - identical repeats are still deterministic)
    var += [("noise_size", "set", 0.0632), ("noise_size", "set", 1.0), ("fun_eval_start", "set", 1), ("tol_noise", "set", 0.0), ("tol_noise", "set", 0),
            ("display", "set", "iter"), ("display", "set", "full"), ("display", "set", "final")]
    rs = np.random.RandomState(seed + 97)
    modes = ["det", "auto", "he", "declared"]
    for j, (k, how, _) in enumerate(var):
        for mode in (modes if tier != "quick" else (["det", ["auto", "he", "declared"][(j + seed) % 3]] if how in ("flip", "set") else [modes[(j + seed) % 4]])):
            rng = gen.rng_for(seed, "C09", 700000 + j * 4 + modes.index(mode))
            D = int(rng.choice(list(Dchoices)))
            refD = reference_options(paths, D, {})
            v = refD[k]
            if how == "set":
                val = _
            elif how == "flip":
                val = not bool(v)
            elif isinstance(v, (int, np.integer)) or float(v) == int(v):
                # (integral floats such as search_n_try = max(D, floor(3 + D/2)) are counts: they stay integral)
                val = max(1, int(v) // 2) if how == "half" else int(v) * 2
                if k in FRACTIONS:
                    val = int(min(val, FRACTIONS[k]))
            else:
                val = float(v) * (0.5 if how == "half" else 2.0)
                if k in FRACTIONS:
                    val = min(val, FRACTIONS[k])
            spec = gen.make_spec(rng, D=D, geom=str(rng.choice(["lin", "log", "unb"])), x0mode="in", land=str(rng.choice(list(lands))),
                                 mode=mode, options={k: val}, max_fun_evals=int(rng.choice(list(budgets))))
            out.append({"spec": spec, "fam": "option-variation", "option": [k, how]})
        if hard:
            # the same variation on a problem that takes the RARE paths: a noisy target under a measure-zero (hyperplane) or
            # thin-band constraint - every ES candidate infeasible, empty search sets
            rng = gen.rng_for(seed, "C09", 800000 + j)
            D = int(rng.choice([2, 3]))
            v = reference_options(paths, D, {})[k]
            spec = gen.make_spec(rng, D=D, geom=str(rng.choice(["lin", "unb"])), x0mode="centre", land="quad", mode=["auto", "declared", "he"][(j + seed) % 3],
                                 cons=str(rng.choice(["hyperplane", "band"], p=[0.7, 0.3])), options={k: _variation_value(k, how, _, v)}, max_fun_evals=60)
            out.append({"spec": spec, "fam": "option-variation", "option": [k, how], "hard": True})
    return out


def _variation_value(k, how, explicit, v):
    if how == "set":
        return explicit
    if how == "flip":
        return not bool(v)
    if isinstance(v, (int, np.integer)) or float(v) == int(v):
        val = max(1, int(v) // 2) if how == "half" else int(v) * 2
        return int(min(val, FRACTIONS[k])) if k in FRACTIONS else val
    val = float(v) * (0.5 if how == "half" else 2.0)
    return min(val, FRACTIONS[k]) if k in FRACTIONS else val


def run_case(case):
    rec = C.run_monitored(case, {"C09"})
    rec["fam"] = case["fam"]
    if case.get("option"):
        rec["cnt"]["C09.option_variation_runs"] = 1
    e = rec.get("exc")
    if rec["status"] == "exception" and e and not e.get("origin_in_boundary"):
        inner = e.get("inner") or ("?", "?", 0)
        rec["viol"].append({"key": f"C09/{e['type']}@{inner[0]}:{inner[1]}", "detail": {"msg": e["msg"], "line": inner[2], "ncalls": rec["ncalls"]}})
    elif rec["status"] == "ctor-exception" and e:
        # a generated problem is valid; only the documented rejection of a start that is infeasible after snapping is legitimate
        legit = e["type"] == "ValueError" and ("non-bound constraint" in e["msg"])
        if not legit and not e.get("origin_in_boundary"):
            inner = e.get("inner") or ("?", "?", 0)
            rec["viol"].append({"key": f"C09/ctor:{e['type']}@{inner[0]}:{inner[1]}", "detail": {"msg": e["msg"], "line": inner[2]}})
    elif rec["status"] == "ok":
        rec["cnt"]["C09.completed"] = 1
    return rec


def summarize(records, tier, seed):
    nt = set()
    rare = {k: 0 for k in RARE}
    for r in records:
        f = set(r.get("flags") or [])
        for k in RARE:
            if k in f:
                rare[k] += 1
        if r.get("status") in ("ok", "exception"):
            s = r["case"]["spec"]
            nt.add((s["noise"]["mode"], s["cons"]["kind"], s["geom"], s["target"]["kind"], tuple(sorted(f & set(RARE)))))
    extra = {"status": C.status_hist(records), "rare_paths_reached_runs": rare,
             "rare_paths_never_reached": [k for k, v in rare.items() if v == 0],
             "families": {k: sum(1 for r in records if r.get("fam") == k) for k in ("plain", "cons-hard", "dup-pressure", "budget-edge", "plateau", "iter-edge", "tiny-sd", "d1-cons", "option-variation", "option-pairs", "stobads")},
             "duplicate_merges_total": C.count_sum(records, "duplicate_merges"),
             "completed_runs": sum(1 for r in records if r.get("status") == "ok"),
             "exceptions_by_signature": C.other_property_aborts(records, "C09")}
    inconc = None
    if extra["completed_runs"] == 0:
        inconc = "no run completed"
    return dict(evaluations=len(records), distinct_nontrivial=len(nt), rule=RULE,
                samples=C.pick_samples(records, lambda r: len(set(r.get("flags") or []) & set(RARE)) >= 2),
                extra=extra, inconclusive=inconc, min_nontrivial=20)
