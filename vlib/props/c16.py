"""C16 — numerical failure of a GP hyperparameter fit never aborts the optimisation."""
import numpy as np

from .. import gen
from . import common as C

LEVEL = "fault_enumeration"
RULE = ("fault injection at gpyreg.GP.fit entry (LinAlgError at chosen invocation indices, counted on the faulted run itself): an "
        "unfaulted reference run gives the number F of fit invocations (initial training + every local refit attempt); plans: a single "
        "fault at each k in 0..F-1 (quick: a seeded subset), runs of 2, 3, 4 consecutive faults starting at each k, scattered sets of "
        "2-4 indices (the statement's quantifier; a WHOLE refit failing = 10 consecutive faults is outside it and not injected); plus "
        "LinAlgError in the POSTERIOR RECOMPUTATION that ends a local fit (the listed 'fallback to previous hyper-parameters' mechanism) "
        "early/middle/late in the run, single and 3 consecutive; modes det / auto / declared / he (noise vector present) x "
        "geometries; plus plateau / staircase targets (tied training values). Oracle: optimize() returns, and on that faulted run the run-level monitors of C01 (bounds), C03 (budget, count, "
        "message) and C04/C05 (truthful result) all hold. distinct_nontrivial = distinct (mode, plan shape, fit kind initial|local) "
        "cells in which a fault was actually DELIVERED (measured), weighted by distinct k")
RUN_KW = {"quick": dict(timeout_case=900, wall_cap=1200), "thorough": dict(timeout_case=3200, wall_cap=3400)}
ASSUMPTIONS = ["late faults (inside a fit's final posterior factorisation) are raised at gpyreg's private core computation; if that seam is absent the plans are reported as a structural mismatch (inconclusive)",
               "faults are injected at GP.fit and at the posterior recomputation inside local_gp_fitting (both listed mechanisms); GP.update calls "
               "elsewhere (incremental add of a point) have no handler and are outside the statement"]


def cases(tier, seed):
    out = []
    n = 32 if tier == "quick" else 96
    for i in range(n):
        rng = gen.rng_for(seed, "C16", i)
        mode = ["det", "auto", "declared", "he"][i % 4]
        geom = ["lin", "log", "tight", "unb"][(i // 4) % 4]
        spec = gen.make_spec(rng, D=int(rng.choice([1, 2, 3])), geom=geom, x0mode="in", land=str(rng.choice(["quad", "sphere", "l1", "rosen"])),
                             where=str(rng.choice(["in", "onb"])), mode=mode, sigma=float(rng.choice([0.05, 0.5])), noise_src="private",
                             max_fun_evals=int(rng.choice([50, 60, 80])), options={"noise_final_samples": int(rng.choice([1, 3]))} if mode != "det" else {})
        out.append({"spec": spec, "nplans": 7 if tier == "quick" else 40, "pseed": int(rng.integers(1 << 30))})
    # tied training values (plateaus, staircases): the retry path prunes "the worst 5%" of the training points - with ties at
    # the top that rule must not empty the set
    for j in range(8 if tier == "quick" else 32):
        rng = gen.rng_for(seed, "C16", 5000 + j)
        spec = gen.make_spec(rng, D=int(rng.choice([1, 2])), geom=str(rng.choice(["lin", "tight"])), x0mode="in", land=str(rng.choice(["const", "stair", "stair"])),
                             where="in", mode=str(rng.choice(["det", "det", "declared"])), sigma=1e-3, noise_src="private", max_fun_evals=int(rng.choice([50, 70])))
        out.append({"spec": spec, "nplans": 9 if tier == "quick" else 40, "pseed": int(rng.integers(1 << 30))})
    return out


def run_case(case):
    from ..runmon import RunMonitor

    spec = case["spec"]
    ref = RunMonitor(spec, oracles=set())
    rr = ref.run()
    if rr["status"] != "ok":
        return {"status": "reference-failed", "exc": rr.get("exc"), "viol": [], "cnt": {}}
    F = ref.gp_fit_idx
    rs = np.random.RandomState(case["pseed"])
    plans = []
    ks = list(range(F))
    rs.shuffle(ks)
    for k in ks[: max(2, case["nplans"] // 3)]:
        plans.append(("single", [k]))
    for L in (2, 3, 4):
        k = int(rs.randint(0, max(1, F)))
        plans.append((f"run{L}", list(range(k, k + L))))
    plans.append(("initial-burst", [0, 1, 2]))
    for _ in range(max(1, case["nplans"] // 4)):
        plans.append(("scattered", sorted(set(int(x) for x in rs.randint(0, F + 3, size=rs.randint(2, 5))))))
    plans = plans[: case["nplans"]]
    # the listed 'posterior update fallback' mechanism: LinAlgError in the posterior recomputation at the end of a
    # local fit (early, middle, late in the run; single and 2-3 consecutive)
    U = ref.gp_update_idx
    uplans = []
    for frac in (0.02, 0.3, 0.6, 0.9):
        k = int(frac * max(1, U - 1))
        uplans.append(("update-single", [k]))
    k = int(rs.randint(0, max(1, U)))
    uplans.append(("update-run3", [k, k + 1, k + 2]))
    uplans = uplans[: max(2, case["nplans"] // 2)]
    # the same plan shapes delivered LATE (inside the fit's final posterior factorisation instead of at its entry)
    # (only LOCAL refits: they work on a copy of the GP.  The initial training fits the live object; a late failure there is
    # not something gpyreg's fit can produce today - it retries the final factorisation itself and never raises LinAlgError
    # from it - and is recorded as an observation in DESIGN section 13, not injected)
    n_init = sum(1 for f in ref.gp_fits if f["kind"] == "initial")
    lplans = [("late-" + sh, [k for k in ix if k >= n_init]) for sh, ix in plans if sh in ("single", "run2", "run3", "scattered")]
    lplans = [(sh, ix) for sh, ix in lplans if ix][: max(2, case["nplans"] // 2)]
    viol = {}
    cells = {}
    delivered_runs = 0
    faults_delivered = 0
    mode = spec["noise"]["mode"]
    for shape, idx in plans + uplans + lplans:
        if shape.startswith("late-"):
            m = RunMonitor(spec, oracles={"C01", "C03", "C04", "C05"}, gp_fault_late=idx)
            rec = m.run()
            dl = [f for f in m.gp_fits if f.get("late")]
        elif shape.startswith("update"):
            m = RunMonitor(spec, oracles={"C01", "C03", "C04", "C05"}, gp_update_fault=idx)
            rec = m.run()
            dl = [{"i": i, "kind": "posterior-update", "faulted": True} for i in idx][: m.gp_updates_faulted]
        else:
            m = RunMonitor(spec, oracles={"C01", "C03", "C04", "C05"}, gp_fault=idx)
            rec = m.run()
            dl = [f for f in m.gp_fits if f["faulted"]]
        if not dl:
            continue
        delivered_runs += 1
        faults_delivered += len(dl)
        for f in dl:
            cells[(mode, shape, f["kind"])] = cells.get((mode, shape, f["kind"]), 0) + 1
        ctx = {"plan": shape, "indices": idx, "mode": mode, "F_reference": F, "fits_in_faulted_run": m.gp_fit_idx, "delivered": [[f["i"], f["kind"]] for f in dl][:12]}
        if rec["status"] != "ok":
            e = rec.get("exc") or {}
            inner = e.get("inner") or ("?", "?", 0)
            viol.setdefault(f"C16/optimize-aborted:{e.get('type')}@{inner[0]}:{inner[1]}", dict(ctx, exc=e))
            continue
        if rec.get("oracle_error"):
            return {"status": "oracle-error", "oracle_error": rec["oracle_error"], "viol": [], "cnt": {}}
        for v in rec["viol"]:
            viol.setdefault("C16/guarantee-broken-on-faulted-run:" + v["key"], dict(ctx, detail=v["detail"]))
    return {"status": "faults", "F": F, "delivered_runs": delivered_runs, "cells": [[a, b, c, n] for (a, b, c), n in sorted(cells.items())],
            "cnt": {"C16.faulted_runs": delivered_runs, "C16.faults_delivered": faults_delivered, "C16.reference_runs": 1, "C16.plans": len(plans)},
            "viol": [{"key": a, "detail": b} for a, b in viol.items()], "mode": mode}


def summarize(records, tier, seed):
    cnt = C.count_sum(records, "C16.")
    cells = {}
    for r in records:
        for a, b, c, n in r.get("cells") or []:
            cells[(a, b, c)] = cells.get((a, b, c), 0) + n
    inconc = None
    if cnt.get("C16.faults_delivered", 0) == 0:
        inconc = "no GP fit fault delivered"
    elif any(r.get("status") == "reference-failed" for r in records):
        inconc = "a reference run failed"
    return dict(evaluations=int(cnt.get("C16.faulted_runs", 0)), distinct_nontrivial=len(cells), rule=RULE,
                samples=[{"mode": a, "plan": b, "fit_kind": c, "faults_delivered": n} for (a, b, c), n in sorted(cells.items())[:8]],
                extra={"events_checked": cnt, "mode_x_plan_x_fitkind(delivered)": {f"{a}|{b}|{c}": n for (a, b, c), n in sorted(cells.items())}},
                inconclusive=inconc, min_nontrivial=12)
