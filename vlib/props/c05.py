"""C05 — noisy targets: reported estimate = mean of fresh samples at the returned x."""
import numpy as np

from .. import gen
from . import common as C

LEVEL = "exploration"
RULE = ("noise modes (auto-detected, declared, declared+size, user-specified heteroskedastic) x noise magnitude 1e-3..10 x "
        "noise_final_samples in {0,1,3,10} x budget x geometry; plus a classification sub-workload with deterministic landscapes "
        "and scripted jitter on the repeat of the start point straddling tol_noise (default and user values). Offline checker over "
        "the tail of the boundary call log vs result.x / yval_vec / ysd_vec / fval / fsd / target_type. Non-trivial: the final "
        "re-sampling ran (>=1 fresh sample at the returned x) or the classification clause was judged with a scripted difference; "
        "distinct = distinct (mode, noise_final_samples, D, geometry, sigma decade | scripted-difference class)")
RUN_KW = {"quick": dict(timeout_case=200, wall_cap=800), "thorough": dict(timeout_case=400, wall_cap=3300)}
ASSUMPTIONS = ["either ddof is accepted for the standard error (statement says 'standard error'; code uses ddof=0)"]


def cases(tier, seed):
    n = C.n_cases(tier, 120, 2400)
    out = []
    for i in range(n):
        rng = gen.rng_for(seed, "C05", i)
        D = int(rng.choice([1, 2, 3], p=[0.35, 0.45, 0.2]))
        if rng.random() < 0.25:
            # classification sub-workload
            tn = rng.choice([None, 1e-3, 0.1, 0.0])  # (0: identical repeats do not differ by MORE than 0)
            tol = 2.220446049250313e-19 if tn is None else float(tn)
            cls = str(rng.choice(["zero", "half", "double", "big", "equal", "ulp", "ulp", "ulp0"]))
            if cls == "equal":
                tn, tol = 0.125, 0.125  # exactly representable: |y1-y2| == tol_noise is NOT 'more than'
            if cls == "ulp0":
                tn, tol = 0.0, 0.0  # tol_noise = 0: ANY variability counts, also one ulp of a tiny value (far below eps * tol_fun)
            diff = {"zero": 0.0, "half": 0.5 * tol, "double": 2.0 * tol, "big": 1.0, "equal": tol, "ulp": "ulp", "ulp0": "ulp"}[cls]
            opts = {} if tn is None else {"tol_noise": float(tn)}
            if cls == "ulp":
                # the repeat differs by ONE unit in the last place of the value: far above the default tol_noise
                # (eps * tol_fun = 2.2e-19) for |value| > 2e-3, below it for tiny values; with a user tol_fun the
                # documented default scales with it
                opts = {} if rng.random() < 0.6 else {"tol_fun": float(rng.choice([1e-6, 0.1, 1.0]))}
                tol = 2.220446049250313e-16 * float(opts.get("tol_fun", 1e-3))
            spec = gen.make_spec(rng, D=D, geom=str(rng.choice(["lin", "log", "unb"])), x0mode=str(rng.choice(["in", "none"])),
                                 land=("const" if cls in ("equal", "ulp0") else str(rng.choice(["quad", "sphere", "l1"]))), where="in", mode="det", options=opts, max_fun_evals=45)
            if cls == "equal":
                spec["target"]["value"] = 1.0
            if cls == "ulp0":
                spec["target"]["value"] = float(rng.choice([1e-6, 3e-5, 1e-9]))  # one ulp of it is 2e-22 .. 7e-21
            out.append({"spec": spec, "jitter": {"diff": diff, "cls": cls, "tol": tol}})
            continue
        mode = str(rng.choice(["auto", "declared", "declared+size", "he"], p=[0.25, 0.2, 0.15, 0.4]))
        nfs = int(rng.choice([0, 1, 3, 10], p=[0.15, 0.35, 0.25, 0.25]))
        opts = {"noise_final_samples": nfs}
        spec = gen.make_spec(rng, D=D, geom=str(rng.choice(["lin", "tight", "log", "unb", "mixedlog"])),
                             x0mode=str(rng.choice(["in", "none", "onlb"], p=[0.6, 0.2, 0.2])),
                             land=str(rng.choice(["quad", "sphere", "l1", "rosen", "bowl4"])), where=str(rng.choice(["in", "onb"], p=[0.7, 0.3])),
                             mode=mode, options=opts, sigma=float(10 ** rng.uniform(-3, 1)),
                             max_fun_evals=int(rng.choice([60, 80, 120, 150])))
        if rng.random() < 0.3:
            # other valid spellings of the returned value: numpy scalars of other precisions, integer-valued targets (counts),
            # 0-d and size-1 arrays
            spec["ret_spelling"] = str(rng.choice(["np32", "int", "npint", "0d", "arr1", "np64"]))
        out.append({"spec": spec})
    out += C.option_variation_slice("C05", tier, seed, modes=("auto", "declared", "he"))
    return out


def run_case(case):
    from ..runmon import RunMonitor

    j = case.get("jitter")
    m = RunMonitor(case["spec"], oracles={"C05"}, prelude=C.want_prelude(case))
    if j:
        # deterministic target whose SECOND call (the repeat at x0) is shifted by diff
        P = m.P
        base = P.fun
        st = {"n": 0}

        def fun(x):
            st["n"] += 1
            v = base(x)
            if st["n"] != 2:
                return v
            if j["diff"] == "ulp":
                return float(np.nextafter(v, np.inf))
            return v + j["diff"]

        P.fun = fun
        P.mode = "auto" if j["diff"] != 0 else "auto"
    rec = m.run()
    out = C.slim(rec, case)
    out["jitter"] = j
    return out


def summarize(records, tier, seed):
    nt = set()
    for r in records:
        if r.get("status") != "ok":
            continue
        s = r["case"]["spec"]
        if r.get("jitter"):
            if (r.get("cnt") or {}).get("C05.classification_judged"):
                nt.add(("cls", r["jitter"]["cls"], r["jitter"]["tol"], s["D"]))
        elif (r.get("n_final") or 0) >= 1:
            nt.add((s["noise"]["mode"], s["options"].get("noise_final_samples"), s["D"], s["geom"], int(np.floor(np.log10(max(s["noise"]["sigma"], 1e-12))))))
    cnt = C.count_sum(records, "C05.")
    extra = {"events_checked": cnt, "status": C.status_hist(records),
             "classification_cases": {c: sum(1 for r in records if (r.get("jitter") or {}).get("cls") == c) for c in ("zero", "half", "double", "big", "equal", "ulp", "ulp0")},
             "classified_stochastic": sum(1 for r in records if r.get("jitter") and str(r.get("target_type", "")).startswith("stochastic")),
             "runs_with_final_sampling": sum(1 for r in records if (r.get("n_final") or 0) >= 1),
             "aborts_by_other_defects": C.other_property_aborts(records, "C05")}
    inconc = None
    if cnt.get("C05.final_sampling_runs", 0) == 0 or cnt.get("C05.classification_judged", 0) == 0:
        inconc = "final sampling or classification clause never reached"
    elif C.aborted_fraction(records) > 0.2:
        inconc = "more than 20% of runs aborted by defects of other properties"
    return dict(evaluations=len(records), distinct_nontrivial=len(nt), rule=RULE,
                samples=C.pick_samples(records, lambda r: (r.get("n_final") or 0) >= 1) + [{"classification_case": r.get("jitter"), "target_type": r.get("target_type")} for r in records if r.get("jitter")][:3],
                extra=extra, inconclusive=inconc, min_nontrivial=10)
