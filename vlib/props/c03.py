"""C03 — optimize() terminates within budget, counts honestly, names a true stopping condition."""
import numpy as np

from .. import gen
from . import common as C

LEVEL = "exploration"
RULE = ("natural runs over budget (N_init..500D) x max_iter x tol_mesh x complete_poll x accelerate_mesh x search_n_try x noise "
        "mode x landscape (incl. all-improving ramps and never-improving needles), PLUS outcome injection: the candidate filter "
        "is wrapped to return 0..k rows on a scripted pattern at the search / ES / poll call sites, and (20% of deterministic runs) the "
        "TARGET VALUES themselves follow a per-phase outcome script over {success, incremental, fail, tie} (cached per point, so still a "
        "function of x): together these produce controller "
        "histories (empty search sets, polls with 0..2D evaluations, long non-evaluating stretches) natural runs do not show. "
        "Safety clauses are exact (independent call counter vs budget / func_count / max_iter / message). Liveness is restated "
        "as bounded progress checked by the loop probe at the end of EVERY main-loop iteration (the probe aborts a run that "
        "violates it). Non-trivial/distinct = distinct (stop condition, max consecutive non-evaluating iterations bucket, "
        "#polls bucket, injected?, mode) signatures")
RUN_KW = {"quick": dict(timeout_case=150, wall_cap=700), "thorough": dict(timeout_case=400, wall_cap=3300)}
ASSUMPTIONS = ["bounded-progress restatement of 'always terminates' (DESIGN §C03): no finite run decides unbounded liveness",
               "outcome injection explores controller histories by fault injection; it is not a proof over all outcome sequences (no model checking in this technique family)"]

PATTERNS = [[0], [0, 0, 0, None], [None, 0], [1, 0, 0], [0, 1], [None, None, 0, 0, 0, 0], [2, 0], [0, 0, 1, None, 0]]


def cases(tier, seed):
    n = C.n_cases(tier, 200, 4000)
    out = []
    for i in range(n):
        rng = gen.rng_for(seed, "C03", i)
        D = int(rng.choice([1, 2, 3, 4], p=[0.3, 0.4, 0.2, 0.1]))
        mode = str(rng.choice(gen.MODES, p=[0.45, 0.15, 0.15, 0.05, 0.2]))
        opts = {}
        kind = str(rng.choice(["budget", "max_iter", "tol_mesh", "default", "tiny"], p=[0.35, 0.2, 0.2, 0.1, 0.15]))
        mfe = None
        if kind == "budget":
            mfe = int(rng.choice([30, 45, 60, 100, 150]))
        elif kind == "tiny":
            mfe = int(rng.integers(3, 40))
        elif kind == "max_iter":
            opts["max_iter"] = int(rng.choice([1, 2, 3, 5, 8]))
            mfe = 150
        elif kind == "tol_mesh":
            opts["tol_mesh"] = float(rng.choice([0.5, 0.1, 1e-2, 1e-3]))
            mfe = 200
        else:
            mfe = 500 * D if D <= 2 and rng.random() < 0.3 else 120
        if rng.random() < 0.3:
            opts["complete_poll"] = True
        if rng.random() < 0.3:
            opts["accelerate_mesh"] = False
        if rng.random() < 0.35:
            opts["search_n_try"] = int(rng.choice([0, 1, 2]))
        if mode != "det" and rng.random() < 0.5:
            opts["noise_final_samples"] = int(rng.choice([0, 1, 3, 10, 20]))
        if rng.random() < 0.1:
            opts["fun_eval_start"] = int(rng.choice([1, 2 * D, 16]))
        land = str(rng.choice(["quad", "sphere", "l1", "rosen", "stair", "ramp", "needle", "maxkink", "const"],
                              p=[0.15, 0.1, 0.15, 0.1, 0.1, 0.15, 0.15, 0.05, 0.05]))
        cons = str(rng.choice(["none", "ball", "band", "hyperplane"], p=[0.7, 0.1, 0.1, 0.1]))
        x0mode = "centre" if cons == "hyperplane" else str(rng.choice(["in", "none", "onlb"], p=[0.6, 0.2, 0.2]))
        if cons != "none" and x0mode == "none":
            x0mode = "in"
        geom = str(rng.choice(["lin", "tight", "log", "unb"], p=[0.4, 0.25, 0.2, 0.15]))
        if cons == "hyperplane":
            geom = "lin"
        spec = gen.make_spec(rng, D=D, geom=geom, x0mode=x0mode, land=land, mode=mode, cons=cons, options=opts, max_fun_evals=mfe)
        if rng.random() < 0.2 and mode == "det" and cons == "none":
            # scripted outcome sequences at the target (see runmon._scripted_value)
            pats = ["S", "F", "SF", "SSSF", "IF", "I", "FFFS", "T", "ST", "SIF", "FFFFFFFS"]
            spec["target"] = {"kind": "scripted", "c": spec["target"]["c"], "where": "in",
                              "search": pats[int(rng.integers(len(pats)))], "poll": pats[int(rng.integers(len(pats)))], "other": "F"}
        case = {"spec": spec, "kind": kind}
        if rng.random() < 0.3:
            case["filter_script"] = {"pattern": PATTERNS[int(rng.integers(len(PATTERNS)))],
                                     "sites": [["search"], ["poll"], ["es"], ["search", "poll"], ["es", "poll"]][int(rng.integers(5))]}
        out.append(case)
    # full grid noise mode x noise_final_samples on runs that certainly STOP ON THE BUDGET (the reserve for the final
    # re-sampling is what keeps them within it): every combination appears in every run of the check
    g = 0
    for mode in ("auto", "declared", "declared+size", "he"):
        for nfs in (0, 1, 3, 10):
            for mfe in ((45, 60) if tier == "quick" else (40, 45, 50, 60, 75, 90)):
                rng = gen.rng_for(seed, "C03", 600000 + g)
                g += 1
                spec = gen.make_spec(rng, D=int(rng.choice([1, 2, 3])), geom=str(rng.choice(["lin", "unb", "log"])), x0mode="in", land=str(rng.choice(["l1", "ramp", "rosen"])),
                                     where="out", mode=mode, options={"noise_final_samples": nfs}, max_fun_evals=mfe, sigma=float(rng.choice([0.1, 1.0])))
                out.append({"spec": spec, "kind": "budget-grid"})
    # the budget (or the iteration limit) is set on the CONSTRUCTED object before optimize(), after a larger value was given
    # to the constructor: the run is bound by the value in force when optimize() starts
    for j_ in range(16 if tier == "quick" else 160):
        rng = gen.rng_for(seed, "C03", 650000 + j_)
        mode = ["det", "auto", "declared", "he"][j_ % 4]
        spec = gen.make_spec(rng, D=int(rng.choice([1, 2, 3])), geom=str(rng.choice(["lin", "unb", "log"])), x0mode="in", land=str(rng.choice(["l1", "ramp", "rosen"])),
                             where="out", mode=mode, options=({"noise_final_samples": int(rng.choice([1, 3, 10]))} if mode != "det" else {}), max_fun_evals=int(rng.choice([150, 200])))
        spec["late_options"] = {"max_fun_evals": int(rng.choice([45, 60, 70]))} if j_ % 3 else {"max_iter": int(rng.choice([2, 3]))}
        out.append({"spec": spec, "kind": "late-options"})
    out += C.option_variation_slice("C03", tier, seed, kind="option-variation")
    return out


def run_case(case):
    fs = case.get("filter_script")
    rec = C.run_monitored(case, {"C03"}, filter_script=dict(fs) if fs else None)
    rec["injected"] = bool(fs)
    rec["kind"] = case["kind"]
    return rec


def _bucket(x):
    return 0 if x == 0 else 1 if x <= 2 else 2 if x <= 8 else 3


def summarize(records, tier, seed):
    nt = set()
    for r in records:
        if r.get("status") in ("ok", "nonprogress"):
            nt.add((r.get("stop"), _bucket(r.get("max_consec_noeval") or 0), _bucket(r.get("n_polls") or 0), r.get("injected"),
                    r["case"]["spec"]["noise"]["mode"]))
    cnt = C.count_sum(records, "C03.")
    extra = {"events_checked": cnt, "status": C.status_hist(records),
             "stop_conditions_seen": {k[len("C03.stop."):]: v for k, v in cnt.items() if k.startswith("C03.stop.")},
             "max_consecutive_non_evaluating_iterations": max([r.get("max_consec_noeval") or 0 for r in records] + [0]),
             "runs_with_non_evaluating_iterations": sum(1 for r in records if (r.get("max_consec_noeval") or 0) > 0),
             "injected_runs": sum(1 for r in records if r.get("injected")),
             "scripted_outcome_runs": sum(1 for r in records if r["case"]["spec"]["target"]["kind"] == "scripted"),
             "scripted_outcomes_delivered": C.count_sum(records, "scripted_outcomes."),
             "aborts_by_other_defects": C.other_property_aborts(records, "C03")}
    inconc = None
    if cnt.get("C03.loop_iters", 0) == 0:
        inconc = "loop probe never reached (hook disabled?)"
    elif C.aborted_fraction(records) > 0.2:
        inconc = "more than 20% of runs aborted by defects of other properties"
    return dict(evaluations=len(records), distinct_nontrivial=len(nt), rule=RULE,
                samples=C.pick_samples(records, lambda r: (r.get("max_consec_noeval") or 0) > 0), extra=extra, inconclusive=inconc, min_nontrivial=8)
