"""C12 — the evaluation log records exactly what was observed, where it was observed."""
import numpy as np

from .. import gen
from . import common as C

LEVEL = "exploration"
RULE = ("random operation sequences (length 5-200) of __call__(record=True), __call__(record=False) and add(...) on the REAL "
        "FunctionLogger, over points from a 3-value-per-axis lattice in D=1..3 (forces exact repeats AND points sharing k<D "
        "coordinates, which is what mesh polling produces; in 30% of the sequences the lattice also holds DISTINCT values one ulp / 2e-13 relative away from a lattice value), cache sizes 1..6 (repeated growth), uncertainty levels 0/1/2 (add only "
        "in 0 and 2), with/without a transformer (linear and log; in half of the transformed sequences the points come from ONE internal lattice while the transformer's box differs from sequence to sequence - bit-identical internal points with different original points, as successive optimisations with re-scaled boxes produce in one process). After EVERY operation the real logger is compared with an "
        "executable list-of-records reference model of the documented semantics (append; precision-weighted merge into the record "
        "whose ALL coordinates match; no-record path bumps only the observation count of the last matching record; growth changes "
        "nothing observable): Xn, X_max_idx, func_count, cache_count, rows 0..Xn of X_orig/X/Y_orig/Y/S/n_evals/X_flag, untouched "
        "tail, array lengths. Plus the passive version inside full runs (logger vs boundary call log, all modes). Non-trivial: "
        "sequence contains >= 1 partial-coordinate coincidence AND >= 1 exact repeat AND >= 1 growth; distinct = distinct "
        "(D, level, cache size, transformer, length bucket, #merges bucket) among non-trivial sequences")
RUN_KW = {"quick": dict(timeout_case=300, wall_cap=800), "thorough": dict(timeout_case=900, wall_cap=3300)}
ASSUMPTIONS = ["Y_max is not part of the log the property enumerates (nothing reads it) and is not judged",
               "timing arrays are compared only for length"]


def seq_batch(n, seed):
    from pybads.function_logger import FunctionLogger
    from pybads.variable_transformer import VariableTransformer
    from ..models import LoggerModel

    rs = np.random.RandomState(seed)
    rs2 = np.random.RandomState(seed + 31337)
    viol = {}
    nt = set()
    ops = 0
    n_ulat = 0
    merges_total = 0
    for s in range(n):
        D = int(rs.randint(1, 4))
        level = int(rs.choice([0, 1, 2], p=[0.3, 0.2, 0.5]))
        cache = int(rs.randint(1, 7))
        tr = str(rs.choice(["none", "lin", "log"]))
        vals = np.array([0.5, 1.0, 3.0]) if tr == "log" else np.array([-1.0, 0.0, 0.5])
        near = rs2.rand() < 0.3
        if near:
            # DISTINCT points within one unit in the last place (and ~1e-13 relative) of a lattice point: each is a point
            # of its own and must get its own record - only exact repeats are "the same point"
            vals = np.concatenate([vals, [np.nextafter(vals[2], np.inf), vals[0] * (1 + 2e-13)]])
        vt = None
        ulat = None
        if tr != "none" and rs2.rand() < 0.5:
            # the SAME internal lattice under a transformer that differs from sequence to sequence (as successive
            # optimisations with re-scaled boxes produce): bit-identical internal points, different original points
            ulat = np.array([-0.5, 0.0, 0.25, 1.0])
            if tr == "lin":
                c, w = float(rs2.choice([-1.0, 0.0, 1.0, 2.5, 150.0])), float(rs2.choice([0.5, 1.0, 2.0]))
                vt = VariableTransformer(D, np.full((1, D), c - 2 * w), np.full((1, D), c + 2 * w), np.full((1, D), c - w), np.full((1, D), c + w))
            else:
                a, dec = float(rs2.choice([0.01, 0.1, 1.0])), float(rs2.choice([10.0, 100.0, 1000.0]))
                vt = VariableTransformer(D, np.full((1, D), a / 10), np.full((1, D), a * dec * 10), np.full((1, D), a), np.full((1, D), a * dec))
        elif tr == "lin":
            vt = VariableTransformer(D, np.full((1, D), -4.0), np.full((1, D), 4.0), np.full((1, D), -2.0), np.full((1, D), 2.0))
        elif tr == "log":
            vt = VariableTransformer(D, np.full((1, D), 0.01), np.full((1, D), 100.0), np.full((1, D), 0.1), np.full((1, D), 10.0))
        cur = {}

        def fun(x):
            return cur["ret"]

        fl = FunctionLogger(fun, D, level > 0, level, cache_size=cache, variable_transformer=vt)
        model = LoggerModel(he=(level == 2))
        L = int(rs.choice([5, 12, 30, 80, 200], p=[0.2, 0.3, 0.25, 0.15, 0.1]))
        trace = []
        had_partial = had_repeat = had_growth = False
        merges = 0
        seen = []
        failed = False
        for t in range(L):
            ops += 1
            xo = vals[rs.randint(0, 3, D)] if not near else vals[rs2.randint(0, len(vals), D)]
            u = vt(xo.reshape(1, -1))[0] if vt is not None else xo.copy()
            if ulat is not None:
                u = ulat[rs2.randint(0, 4, D)]
                xo = vt.inverse_transf(u.reshape(1, -1))[0]
                n_ulat += 1
            # what the logger will compute as original coordinates
            x_back = vt.inverse_transf(u.reshape(1, -1))[0] if vt is not None else u
            y = float(np.round(rs.randn(), 3))
            sd = float(rs.choice([0.1, 0.5, 2.0])) if level == 2 else None
            op = str(rs.choice(["call", "norec", "add"], p=[0.65, 0.2, 0.15]))
            if op == "add" and level == 1:
                op = "call"
            for p in seen:
                eq = p == u
                if eq.all():
                    had_repeat = True
                elif eq.any():
                    had_partial = True
            len_before = fl.X.shape[0]
            n_before = len(model.rec)
            trace.append((op, xo.tolist(), y, sd))
            try:
                # other valid spellings of the SAME numbers handed to the logger: an integer-typed whole SD, numpy scalars
                sd_in, y_in = sd, y
                if sd is not None and sd == 2.0:
                    # (no float32 spelling: with a single-precision SD the merge is carried out in single precision, which
                    # the model's 1e-12 tolerance would report although nothing in the statement fixes the precision)
                    sd_in = [2.0, 2, np.int64(2), np.float64(2.0)][int(rs2.randint(4))]
                if rs2.rand() < 0.2:
                    y_in = np.float64(y)
                if op == "add":
                    out = fl.add(u.copy(), y_in, sd_in)
                    mo = model.observe(x_back, u, y, sd if level == 2 else (1 if level > 0 else None) and None, record=True, via_add=True)
                else:
                    cur["ret"] = (y_in, sd_in) if level == 2 else y_in
                    out = fl(u.copy(), record_duplicate_data=(op == "call"))
                    mo = model.observe(x_back, u, y, sd, record=(op == "call"))
            except Exception as e:
                viol.setdefault("C12/logger-operation-raised", {"exc": repr(e), "trace": trace[-5:], "D": D, "level": level, "cache": cache, "transform": tr})
                failed = True
                break
            if op != "norec":
                seen.append(u.copy())
            if fl.X.shape[0] > len_before:
                had_growth = True
            if len(model.rec) == n_before and op != "norec":
                merges += 1
            # returned triple
            rv, ri = out[0], out[2]
            if not (abs(float(np.asarray(rv).ravel()[0]) - mo[0]) <= 1e-12 * max(1, abs(mo[0])) and ri == mo[1]):
                viol.setdefault("C12/returned-value-or-index-differs-from-model", {"got": [float(np.asarray(rv).ravel()[0]), ri], "model": list(mo), "trace": trace[-5:], "D": D, "level": level})
                failed = True
                break
            mm = model.compare(fl)
            if mm:
                viol.setdefault("C12/log-differs-from-model", {"mismatches": mm[:4], "trace": trace[-6:], "D": D, "level": level, "cache": cache, "transform": tr, "step": t})
                failed = True
                break
        merges_total += merges
        if not failed and had_partial and had_repeat and had_growth:
            nt.add((D, level, cache, tr, min(L // 20, 5), min(merges // 3, 4)))
    return n, ops, merges_total, sorted(nt), viol, n_ulat


def cases(tier, seed):
    out = []
    nb = 32 if tier == "quick" else 160
    per = 100 if tier == "quick" else 1200
    for k in range(nb):
        out.append({"kind": "seq", "n": per, "seed": seed * 10000 + k})
    n = C.n_cases(tier, 40, 600)
    for i in range(n):
        rng = gen.rng_for(seed, "C12", i)
        opts = {"cache_size": int(rng.choice([1, 3, 10, 500]))}
        if rng.random() < 0.5:
            opts["tol_mesh"] = float(rng.choice([0.25, 0.1]))
        spec = gen.make_spec(rng, D=int(rng.choice([1, 2, 3])), geom=str(rng.choice(["tight", "lin", "log", "unb"])), x0mode=str(rng.choice(["in", "onlb"])),
                             land=str(rng.choice(["sphere", "l1", "ramp", "quad"])), mode=str(rng.choice(gen.MODES, p=[0.2, 0.15, 0.1, 0.05, 0.5])),
                             options=opts, max_fun_evals=int(rng.choice([60, 100, 140])))
        out.append({"kind": "run", "spec": spec})
    return out


def run_case(case):
    if case["kind"] == "seq":
        n, ops, merges, nt, viol, n_ulat = seq_batch(case["n"], case["seed"])
        return {"status": "seq", "sequences": n, "ops": ops, "merges": merges, "nt": nt,
                "cnt": {"C12.sequences": n, "C12.ops_compared": ops, "C12.merges": merges, "C12.ops_on_shared_internal_lattice_under_varying_transformers": n_ulat}, "viol": [{"key": k, "detail": v} for k, v in viol.items()]}
    return C.run_monitored(case, {"C12"})


def summarize(records, tier, seed):
    seqs = [r for r in records if r.get("status") == "seq"]
    runs = [r for r in records if r["case"]["kind"] == "run"]
    nt = set()
    for r in seqs:
        for t in r["nt"]:
            nt.add(tuple(t))
    cnt = C.count_sum(records, "C12.")
    extra = {"events_checked": cnt, "run_status": C.status_hist(runs), "runs_with_duplicate_merge": sum(1 for r in runs if "duplicate-merge" in (r.get("flags") or [])),
             "aborts_by_other_defects": C.other_property_aborts(runs, "C12")}
    inconc = None
    for need in ("C12.ops_compared", "C12.merges", "C12.passive_compares"):
        if cnt.get(need, 0) == 0:
            inconc = f"monitor never reached: {need}"
    return dict(evaluations=int(cnt.get("C12.sequences", 0) + len(runs)), distinct_nontrivial=len(nt), rule=RULE,
                samples=[{"non_trivial_sequence_signatures(D,level,cache,transform,len_bucket,merge_bucket)": [list(t) for t in sorted(nt)[:6]]}] + C.pick_samples(runs, lambda r: "duplicate-merge" in (r.get("flags") or []), 2),
                extra=extra, inconclusive=inconc, min_nontrivial=20)
