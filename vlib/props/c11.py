"""C11 — the variable transform is a faithful, order-preserving bijection onto the unit box."""
import numpy as np

from .. import gen
from . import common as C

LEVEL = "exploration"
RULE = ("generated bound sets: D 1..6, per coordinate linear / log / log-edge (ratio exactly 10, 9.999..., nextafter(10)) / unbounded "
        "/ tight (plb=lb, pub=ub) / integer-dtype spellings, ranges 1e-12..1e12, mixed; points: the bounds themselves, plausible bounds, "
        "an interior grid, points 1 ulp and 1e-9*width outside each bound. Direct monitor on the real VariableTransformer: round trip "
        "<= 1e-9*width; both directions weakly monotone (strictly for inputs > 1e-6*width apart); plb->-1, pub->+1 within a "
        "conditioning-aware bound; outputs of __call__ inside [lb_t, ub_t] and of inverse_transf inside [lb, ub] EXACTLY, also for "
        "outside inputs; apply_log_t == independent rule (all four bounds > 0 and pub/plb >= 10); affine / log-affine midpoint tests. "
        "A quarter of the bound sets are used for a SECOND transformer built from the same caller-owned array objects, and equal hard/plausible bounds are sometimes passed as the same object: the whole oracle runs again on the second instance against the checker's private copy of the bounds. Plus two BADS objects built in turn from the same caller arrays (1-D or 2-D), nonlinear_scaling True then False => log rule / no log coordinate, plausible bounds -> +-1 (when BADS does not move them), round trip of the geometric midpoint. Constructor self-test refusals are counted, not judged. Non-trivial: "
        "bound set has >=1 log and >=1 non-log coordinate, or an infinite hard bound, or range >= 1e6; distinct = distinct "
        "(D, per-coordinate family tuple, range decade bucket)")
RUN_KW = {"quick": dict(timeout_case=300, wall_cap=600), "thorough": dict(timeout_case=1200, wall_cap=3300)}
ASSUMPTIONS = ["a ValueError('Cannot invert the transform...') at construction is a refusal (listed mechanism), not a violation; refusals are reported"]

FAMS = ["lin", "log", "logedge", "unb", "tight", "narrowfar", "logtight"]


def gen_boundset(rs):
    D = int(rs.randint(1, 7))
    lb = np.empty(D)
    ub = np.empty(D)
    plb = np.empty(D)
    pub = np.empty(D)
    fam = []
    for i in range(D):
        f = str(rs.choice(FAMS, p=[0.3, 0.2, 0.12, 0.13, 0.1, 0.05, 0.1]))
        fam.append(f)
        if f == "lin":
            sc = 10 ** rs.uniform(-12, 9)
            c = rs.uniform(-1, 1) * sc * rs.choice([0, 1, 10])
            lb[i], ub[i] = c - sc * rs.uniform(0.5, 2), c + sc * rs.uniform(0.5, 2)
            w = ub[i] - lb[i]
            plb[i], pub[i] = lb[i] + w * rs.uniform(0.05, 0.4), ub[i] - w * rs.uniform(0.05, 0.4)
        elif f == "tight":
            sc = 10 ** rs.uniform(-6, 6)
            lb[i] = rs.uniform(-1, 1) * sc
            ub[i] = lb[i] + sc * rs.uniform(0.1, 2)
            plb[i], pub[i] = lb[i], ub[i]
        elif f == "log":
            lo = 10 ** rs.uniform(-12, 3)
            ratio = 10 ** rs.uniform(1.01, 6)
            plb[i], pub[i] = lo, lo * ratio
            lb[i], ub[i] = lo / 10 ** rs.uniform(0, 2), lo * ratio * 10 ** rs.uniform(0, 2)
        elif f == "logtight":
            lo = 10 ** rs.uniform(-6, 2)
            plb[i], pub[i] = lo, lo * 10 ** rs.uniform(1.0, 4)
            lb[i], ub[i] = plb[i], pub[i]
        elif f == "logedge":
            lo = 10 ** rs.uniform(-3, 2)
            k = rs.randint(4)
            hi = [lo * 10.0, lo * 9.999, np.nextafter(lo * 10.0, np.inf), np.nextafter(lo * 10.0, 0)][k]
            plb[i], pub[i] = lo, hi
            lb[i], ub[i] = lo / 3, hi * 3
        elif f == "unb":
            lb[i], ub[i] = -np.inf, np.inf
            c = rs.uniform(-1, 1) * 10 ** rs.uniform(-3, 4)
            w = 10 ** rs.uniform(-3, 4)
            plb[i], pub[i] = c - w, c + w
        elif f == "narrowfar":
            c = 10 ** rs.uniform(2, 8) * rs.choice([-1, 1])
            w = abs(c) * 10 ** rs.uniform(-6, -3)
            plb[i], pub[i] = c - w, c + w
            lb[i], ub[i] = c - 10 * w, c + 10 * w
    return D, lb, ub, plb, pub, fam


def batch(n, seed):
    from pybads.variable_transformer import VariableTransformer

    rs = np.random.RandomState(seed)
    rs2 = np.random.RandomState(seed + 777)
    viol = {}
    built = refused = reused = grid_rows = 0
    nt = set()
    pts_checked = 0
    for s in range(n):
        D, lb, ub, plb, pub, fam = gen_boundset(rs)
        intdtype = False
        args = [a.reshape(1, -1).copy() for a in (lb, ub, plb, pub)]
        if all(f in ("lin", "log", "tight", "logtight") for f in fam) and rs.rand() < 0.15:
            # integer spelling of an integer-valued bound set
            ilb = np.floor(rs.uniform(1, 5, D))
            ipl = ilb + np.floor(rs.uniform(0, 3, D))
            ipu = ipl * np.floor(rs.uniform(2, 40, D)) + 1
            iub = ipu + np.floor(rs.uniform(0, 50, D))
            lb, ub, plb, pub = ilb, iub, ipl, ipu
            args = [a.reshape(1, -1).astype(int) for a in (lb, ub, plb, pub)]
            intdtype = True
        ctx = {"lb": lb, "ub": ub, "plb": plb, "pub": pub, "fam": fam, "int_dtype": intdtype}
        # caller-owned arrays: a second transformer built from the SAME array objects (multi-start loops do this), and the
        # same object given as hard and plausible bound (plb = lb), must see the same valid bound set
        reuse = rs2.rand() < 0.25
        if rs2.rand() < 0.3:
            if np.array_equal(args[2], args[0]):
                args[2] = args[0]
                ctx["aliased"] = "plb is lb"
            if np.array_equal(args[3], args[1]):
                args[3] = args[1]
                ctx["aliased"] = ctx.get("aliased", "") + " pub is ub"

        def judge(ctx):
            nonlocal built, refused, pts_checked
            try:
                vt = VariableTransformer(D, *args)
            except ValueError as e:
                if "Cannot invert" in str(e):
                    refused += 1
                    # the self-test uses an ABSOLUTE tolerance of 1e-6, so it may legitimately refuse bound sets
                    # with |bound| >~ 1e8 (relative rounding 1e-16..1e-14); on the unchanged tree every one of 196
                    # refusals in 40 000 generated sets had max|bound| >= 6e8.  A refusal of a small-magnitude set
                    # is not one of those and is judged.
                    fin_ = np.concatenate([np.asarray(lb, float)[np.isfinite(lb)], np.asarray(ub, float)[np.isfinite(ub)], np.asarray(plb, float), np.asarray(pub, float)])
                    if np.max(np.abs(fin_)) < 1e8:
                        viol.setdefault("C11/valid-bound-set-refused-by-selftest", dict(ctx, exc=str(e)[:120]))
                    return
                viol.setdefault("C11/valid-bound-set-rejected", dict(ctx, exc=str(e)[:200]))
                return
            except Exception as e:
                viol.setdefault("C11/constructor-raised", dict(ctx, exc=repr(e)[:200]))
                return
            built += 1
            logm_exp = (lb > 0) & (ub > 0) & (plb > 0) & (pub > 0) & (pub / plb >= 10)
            logm = np.asarray(vt.apply_log_t).ravel().astype(bool)
            if not np.array_equal(logm, logm_exp):
                viol.setdefault("C11/log-rule-differs", dict(ctx, got=logm, expected=logm_exp))
                return
            width = np.where(np.isfinite(ub - lb), ub - lb, pub - plb)
            rng_dec = int(np.floor(np.log10(np.max(width) / max(np.min(width), 1e-300) + 1)))
            if (logm.any() and (~logm).any()) or np.any(~np.isfinite(lb)) or np.any(width >= 1e6):
                nt.add((D, tuple(fam), rng_dec))
            # plausible bounds -> -1 / +1 (conditioning-aware tolerance)
            eps = np.finfo(float).eps
            with np.errstate(all="ignore"):
                a_ = np.where(logm, np.log(np.where(logm, plb, 1.0)), plb)
                b_ = np.where(logm, np.log(np.where(logm, pub, 1.0)), pub)
            tol_pm = 16 * eps * (np.maximum(np.abs(a_), np.abs(b_)) / ((b_ - a_) / 2) + 1)
            tp = vt(plb.reshape(1, -1).astype(float))[0]
            tq = vt(pub.reshape(1, -1).astype(float))[0]
            if np.any(np.abs(tp + 1) > tol_pm) or np.any(np.abs(tq - 1) > tol_pm):
                viol.setdefault("C11/plausible-bounds-not-mapped-to-unit", dict(ctx, t_plb=tp, t_pub=tq, tol=tol_pm))
            if not (np.allclose(vt.plb.ravel(), -1, atol=np.max(tol_pm), rtol=0) and np.allclose(vt.pub.ravel(), 1, atol=np.max(tol_pm), rtol=0)):
                viol.setdefault("C11/plausible-bounds-not-mapped-to-unit", dict(ctx, attr_plb=vt.plb, attr_pub=vt.pub))
            # points per coordinate
            lo_eff = np.where(np.isfinite(lb), lb, plb - 3 * (pub - plb))
            hi_eff = np.where(np.isfinite(ub), ub, pub + 3 * (pub - plb))
            grid = []
            for fr in (0.0, 1e-9, 0.01, 0.25, 0.5, 0.75, 0.99, 1.0):
                with np.errstate(all="ignore"):
                    lin = lo_eff + fr * (hi_eff - lo_eff)
                    geo = np.exp(np.log(np.where(logm, lo_eff, 1.0)) + fr * (np.log(np.where(logm, hi_eff, 1.0)) - np.log(np.where(logm, lo_eff, 1.0))))
                grid.append(np.where(logm, geo, lin))
            grid += [plb.astype(float), pub.astype(float), lo_eff.astype(float), hi_eff.astype(float)]
            X = np.clip(np.array(grid, float), lo_eff, hi_eff)
            X = np.sort(X, axis=0)
            U = vt(X.copy())
            pts_checked += X.shape[0] * D
            lbt, ubt = vt.lb.ravel(), vt.ub.ravel()
            if not (np.all(U >= lbt) and np.all(U <= ubt)):
                viol.setdefault("C11/forward-output-outside-transformed-box", dict(ctx))
            back = vt.inverse_transf(U.copy())
            if not (np.all(back >= lb) and np.all(back <= ub)):
                viol.setdefault("C11/inverse-output-outside-box", dict(ctx))
            err = np.abs(back - X)
            if np.any(err > 1e-9 * width):
                j = np.unravel_index(np.argmax(err / width), err.shape)
                viol.setdefault("C11/round-trip-error", dict(ctx, x=X[j], back=back[j], coord=int(j[1]), rel=float(err[j] / width[j[1]])))
            dU = np.diff(U, axis=0)
            dX = np.diff(X, axis=0)
            if np.any(dU < 0):
                viol.setdefault("C11/forward-map-not-monotone", dict(ctx))
            if np.any((dX > 1e-6 * width) & (dU <= 0)):
                viol.setdefault("C11/forward-map-not-strictly-increasing", dict(ctx))
            # inverse monotone on a sorted u grid
            ug = np.sort(np.vstack([np.linspace(np.where(np.isfinite(lbt), lbt, -4), np.where(np.isfinite(ubt), ubt, 4), 9), -np.ones(D), np.ones(D)]), axis=0)
            xb = vt.inverse_transf(ug.copy())
            if np.any(np.diff(xb, axis=0) < 0):
                viol.setdefault("C11/inverse-map-not-monotone", dict(ctx))
            if not (np.all(xb >= lb) and np.all(xb <= ub)):
                viol.setdefault("C11/inverse-output-outside-box", dict(ctx))
            # just outside inputs
            outs = []
            for base, sgn in ((lo_eff, -1), (hi_eff, +1)):
                fin = np.isfinite(lb) if sgn < 0 else np.isfinite(ub)
                o1 = np.where(fin, np.nextafter(base, sgn * np.inf), base)
                o2 = np.where(fin, base + sgn * 1e-9 * width, base)
                o3 = np.where(fin, base + sgn * 0.5 * width, base)
                outs += [o1, o2, o3]
            O = np.array(outs, float)
            # (no clamping of the hostile inputs: for a log-scaled coordinate with a small lower bound, "slightly
            # outside" is zero or negative - the forward map must still land inside the transformed box)
            O = np.vstack([O, np.where(logm, 0.0, lo_eff), np.where(logm, -np.abs(lo_eff), lo_eff)])
            UO = vt(O.copy())
            if not (np.all(UO >= lbt) and np.all(UO <= ubt)):
                viol.setdefault("C11/forward-output-outside-transformed-box", dict(ctx, outside_input=True))
            uo = []
            for sgn in (-1, +1):
                base = lbt if sgn < 0 else ubt
                fin = np.isfinite(base)
                uo += [np.where(fin, np.nextafter(base, sgn * np.inf), sgn * 50.0), np.where(fin, base + sgn * 1e-9, sgn * 200.0), np.where(fin, base + sgn * 3.0, sgn * 1e3)]
            XO = vt.inverse_transf(np.array(uo, float))
            if not (np.all(XO >= lb) and np.all(XO <= ub)):
                viol.setdefault("C11/inverse-output-outside-box", dict(ctx, outside_input=True))
            # the far end of "outside": infinite internal coordinates (what an overflowing step produces) must still map
            # INTO the box - onto the bound, or to +-inf for an unbounded coordinate - never to NaN
            with np.errstate(all="ignore"):
                XI = vt.inverse_transf(np.array([np.full(D, np.inf), np.full(D, -np.inf)]))
            if np.any(np.isnan(XI)) or not (np.all(XI >= lb) and np.all(XI <= ub)):
                viol.setdefault("C11/inverse-output-outside-box", dict(ctx, outside_input="infinite", got=XI))
            # affinity / log-affinity (midpoint tests)
            a, b = X[2], X[-3]
            with np.errstate(all="ignore"):
                mid = np.where(logm, np.sqrt(np.where(logm, a * b, 1.0)), 0.5 * (a + b))
            um = vt(np.vstack([a, b, mid]))
            dev = np.abs(um[2] - 0.5 * (um[0] + um[1]))
            scale = np.maximum(1.0, np.maximum(np.abs(um[0]), np.abs(um[1])))
            tol_aff = 1e-9 * scale + 64 * eps * (np.maximum(np.abs(a_), np.abs(b_)) / ((b_ - a_) / 2) + 1)
            if np.any(dev > tol_aff):
                viol.setdefault("C11/map-not-affine-or-log-affine", dict(ctx, dev=dev, tol=tol_aff))

        judge(ctx)
        if intdtype or s % 5 == 0:
            # the multi-row helper of the anchored grid_functions module must agree with the transformer itself, also for
            # integer-typed point arrays (a valid spelling of integer-valued points)
            try:
                from pybads.search.grid_functions import grid_units

                vt_ = VariableTransformer(D, *[np.array(a_, float) for a_ in (lb.reshape(1, -1), ub.reshape(1, -1), plb.reshape(1, -1), pub.reshape(1, -1))])
                lo_ = np.where(np.isfinite(lb), lb, plb - 3 * (pub - plb))
                hi_ = np.where(np.isfinite(ub), ub, pub + 3 * (pub - plb))
                if intdtype:
                    Xg = np.array([np.ceil(lo_), np.ceil(plb), np.floor(0.5 * (plb + pub)), np.floor(pub), np.floor(hi_)]).astype(int)
                else:
                    Xg = np.array([lo_, plb, 0.5 * (plb + pub), pub, hi_], float)
                want_ = vt_(Xg.astype(float).copy())
                got_ = np.asarray(grid_units(Xg.copy(), vt_, None, None), float)
                grid_rows += Xg.shape[0]
                if got_.shape != want_.shape or not np.allclose(got_, want_, rtol=0, atol=1e-12):
                    viol.setdefault("C11/grid-units-differs-from-transformer", dict(ctx, X=Xg, got=got_, want=want_, dtype=str(Xg.dtype)))
            except ValueError as e:
                if "Cannot invert" not in str(e):  # (the constructor's own refusal is judged in judge(), not here)
                    viol.setdefault("C11/grid-units-raised", dict(ctx, exc=repr(e)[:200]))
            except Exception as e:
                viol.setdefault("C11/grid-units-raised", dict(ctx, exc=repr(e)[:200]))
        if reuse:
            reused += 1
            judge(dict(ctx, construction="second, from the same caller arrays"))
    return n, built, refused, pts_checked, sorted(nt), viol, reused, grid_rows


def example_sets(seed, k=3):
    rs = np.random.RandomState(seed)
    out = []
    while len(out) < k:
        D, lb, ub, plb, pub, fam = gen_boundset(rs)
        if len(set(fam)) >= 2 and D <= 4:
            out.append({"D": D, "families": fam, "lb": lb, "plb": plb, "pub": pub, "ub": ub})
    return out


def bads_scaling_cases(n, seed):
    """nonlinear_scaling=False => no coordinate is log-transformed"""
    from pybads import BADS

    rs = np.random.RandomState(seed)
    viol = {}
    k = judged_pm = 0
    for _ in range(n):
        D = int(rs.randint(1, 4))
        plb = 10 ** rs.uniform(-3, 0, D)
        pub = plb * 10 ** rs.uniform(1, 3, D)
        lb, ub = plb / 2, pub * 2
        keep = [a.copy() for a in (lb, ub, plb, pub)]
        shape2d = rs.rand() < 0.5
        if shape2d:
            lb, ub, plb, pub = (a.reshape(1, -1) for a in (lb, ub, plb, pub))
        # the SAME caller arrays are handed to two BADS objects in turn (as a multi-start loop does)
        for flag in (True, False):
            ctx = {"via": "BADS", "nonlinear_scaling": flag, "lb": keep[0], "ub": keep[1], "plb": keep[2], "pub": keep[3], "arrays_2d": bool(shape2d),
                   "construction": "first" if flag else "second, from the same caller arrays"}
            try:
                b = BADS(lambda x: 0.0, None, lb, ub, plb, pub, options={"display": "off", "nonlinear_scaling": flag})
            except Exception as e:
                viol.setdefault("C11/valid-bound-set-rejected", dict(ctx, exc=repr(e)[:200]))
                continue
            got = np.asarray(b.var_transf.apply_log_t).ravel()
            k += 1
            tp = b.var_transf(keep[2].reshape(1, -1).copy())[0]
            tq = b.var_transf(keep[3].reshape(1, -1).copy())[0]
            # BADS moves plausible bounds that lie within 1e-3 of the hard range from a hard bound (documented warning):
            # the given plausible bounds are then not the transformer's, and +-1 is not judged for that bound set
            rng_ = keep[1] - keep[0]
            untouched = np.all(keep[2] >= keep[0] + 1.01e-3 * rng_) and np.all(keep[3] <= keep[1] - 1.01e-3 * rng_)
            if untouched and (np.any(np.abs(tp + 1) > 1e-9) or np.any(np.abs(tq - 1) > 1e-9)):
                viol.setdefault("C11/plausible-bounds-not-mapped-to-unit", dict(ctx, t_plb=tp, t_pub=tq))
            xm = np.sqrt(keep[2] * keep[3]).reshape(1, -1)
            back = b.var_transf.inverse_transf(b.var_transf(xm.copy()))
            if np.any(np.abs(back - xm) > 1e-9 * (keep[1] - keep[0])):
                viol.setdefault("C11/round-trip-error", dict(ctx, x=xm, back=back))
            if untouched:
                judged_pm += 1
            if flag and not got.all():
                viol.setdefault("C11/log-rule-differs", {"via": "BADS", "nonlinear_scaling": True, "got": got})
            if not flag and got.any():
                viol.setdefault("C11/log-applied-although-nonlinear-scaling-off", {"got": got, "plb": plb, "pub": pub})
    return k, viol, judged_pm


def cases(tier, seed):
    nb = 16 if tier == "quick" else 64
    per = 320 if tier == "quick" else 4700
    out = [{"kind": "sets", "n": per, "seed": seed * 1000 + k} for k in range(nb)]
    out.append({"kind": "bads", "n": 30 if tier == "quick" else 300, "seed": seed + 9})
    return out


def run_case(case):
    if case["kind"] == "sets":
        n, built, refused, pts, nt, viol, reused, grid_rows = batch(case["n"], case["seed"])
        return {"status": "sets", "n": n, "built": built, "refused": refused, "nt": nt,
                "cnt": {"C11.bound_sets": n, "C11.built": built, "C11.refused_by_selftest": refused, "C11.point_coordinates_checked": pts, "C11.second_constructions_from_same_arrays": reused, "C11.grid_units_rows_compared": grid_rows},
                "viol": [{"key": k, "detail": v} for k, v in viol.items()]}
    k, viol, jpm = bads_scaling_cases(case["n"], case["seed"])
    return {"status": "bads", "cnt": {"C11.bads_scaling_constructions": k, "C11.bads_constructions_plausible_unit_judged": jpm}, "viol": [{"key": a, "detail": b} for a, b in viol.items()], "nt": []}


def summarize(records, tier, seed):
    nt = set()
    for r in records:
        for t in r.get("nt") or []:
            nt.add((t[0], tuple(t[1]), t[2]))
    cnt = C.count_sum(records, "C11.")
    inconc = None
    if cnt.get("C11.built", 0) == 0 or cnt.get("C11.bads_scaling_constructions", 0) == 0:
        inconc = "transformer monitor never reached"
    sam = sorted(nt)[:5]
    return dict(evaluations=int(cnt.get("C11.bound_sets", 0)), distinct_nontrivial=len(nt), rule=RULE,
                samples=example_sets(seed * 1000) + [{"D": t[0], "coordinate_families": list(t[1]), "range_decade_bucket": t[2]} for t in sam][:3],
                extra={"events_checked": cnt, "refused_fraction": round(cnt.get("C11.refused_by_selftest", 0) / max(1, cnt.get("C11.bound_sets", 1)), 4)},
                inconclusive=inconc, min_nontrivial=50)
