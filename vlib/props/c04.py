"""C04 — deterministic targets: result is the best evaluated point, reported truthfully."""
import numpy as np

from .. import gen
from . import common as C

LEVEL = "exploration"
RULE = ("deterministic landscapes incl. plateaus/ties (staircase, constant), kinks, optimum on/outside the boundary x geometry "
        "x constraint x options that keep the default incumbent policy; offline checker over the boundary call log [(x_k,y_k)]: "
        "result.x bitwise among x_k, result.fval == y_k there, min_k y_k >= result.fval, fsd == 0, target_type, recorded fval "
        "non-increasing (all exact). Non-trivial: the run had >= 2 polls, >= 40 evaluations and >= 2 searches (or search disabled: poll-heavy family); distinct = "
        "distinct (D, geometry, start, landscape, location, constraint, options signature)")
RUN_KW = {"quick": dict(timeout_case=150, wall_cap=700), "thorough": dict(timeout_case=400, wall_cap=3300)}
ASSUMPTIONS = ["default improvement policy (sloppy_improvement, improvement_quantile, stobads untouched) as the statement requires"]


def cases(tier, seed):
    n = C.n_cases(tier, 150, 3000)
    out = []
    for i in range(n):
        rng = gen.rng_for(seed, "C04", i)
        D = int(rng.choice([1, 2, 3, 4], p=[0.25, 0.4, 0.25, 0.1]))
        land = str(rng.choice(["quad", "sphere", "l1", "rosen", "stair", "maxkink", "ramp", "needle", "const", "bowl4"],
                              p=[0.12, 0.08, 0.12, 0.12, 0.16, 0.1, 0.08, 0.1, 0.04, 0.08]))
        opts = {}
        if rng.random() < 0.3:
            opts["search_n_try"] = int(rng.choice([0, 1, 2]))
        if rng.random() < 0.25:
            opts["complete_poll"] = True
        if rng.random() < 0.2:
            opts["accelerate_mesh"] = False
        if rng.random() < 0.15:
            opts["tol_mesh"] = float(rng.choice([1e-2, 1e-3]))
        if rng.random() < 0.1:
            opts["nonlinear_scaling"] = False
        if rng.random() < 0.25:
            # poll-heavy family: complete polls without search steps on anisotropic targets, so that one poll
            # step sees several improving points of different quality
            opts["complete_poll"] = True
            opts["search_n_try"] = 0
            land = str(rng.choice(["wl1", "quad", "rosen", "bowl4"], p=[0.4, 0.3, 0.15, 0.15]))
            D = max(D, 2)
        if rng.random() < 0.25:
            # small evaluation cache and/or larger initial design: the log is re-allocated while the initial
            # design is being evaluated
            opts["cache_size"] = int(rng.choice([1, 2, 4, 10]))
            if rng.random() < 0.6:
                opts["fun_eval_start"] = int(rng.choice([8, 16, 32]))
        cons = str(rng.choice(["none", "ball", "halfspace", "annulus"], p=[0.7, 0.1, 0.1, 0.1]))
        x0mode = str(rng.choice(["in", "none", "onlb", "onub", "outpl"], p=[0.5, 0.15, 0.15, 0.1, 0.1]))
        if cons != "none":
            x0mode = "in"
        spec = gen.make_spec(rng, D=D, geom=str(rng.choice(gen.GEOMS)), x0mode=x0mode, land=land,
                             where=str(rng.choice(["in", "onb", "out"], p=[0.45, 0.3, 0.25])), mode="det", cons=cons, options=opts,
                             max_fun_evals=int(rng.choice([50, 80, 120, 200])))
        case = {"spec": spec}
        if rng.random() < 0.35:
            # 'the k-th evaluated point is by far the best of the run': k drawn over the whole run,
            # with emphasis on the first and last points of the initial design
            case["well_at"] = str(rng.choice(["design-first", "design-last", "x0", "random", "last"], p=[0.2, 0.3, 0.1, 0.3, 0.1]))
            case["well_u"] = float(rng.random())
        out.append(case)
    out += C.option_variation_slice("C04", tier, seed, modes=("det",))
    return out


def run_case(case):
    if case.get("well_at"):
        from ..runmon import RunMonitor

        ref = RunMonitor(case["spec"], oracles=set())
        rr = ref.run()
        if rr["status"] == "ok" and ref.calls:
            ph = [e["phase"] for e in ref.calls]
            des = [i for i, p in enumerate(ph) if p == "design"]
            w = case["well_at"]
            k = {"design-first": des[0] if des else 0, "design-last": des[-1] if des else 0, "x0": 0, "last": len(ph) - 1,
                 "random": int(case["well_u"] * len(ph))}[w]
            k = min(k, len(ph) - 1)
            P = gen.Problem(case["spec"])
            tk = gen.tmap(ref.calls[k]["x"], P.plb, P.pub, P.logm)
            lo = min(e["y"] for e in ref.calls if "y" in e)
            spec = dict(case["spec"], target=dict(case["spec"]["target"], wells=[{"t": [float(v) for v in tk], "r": 1e-12, "v": float(lo - 10.0 - abs(lo))}]))
            case = dict(case, spec=spec, well_k=k, well_phase=ph[k])
    rec = C.run_monitored(case, {"C04"})
    rec["well"] = [case.get("well_at"), case.get("well_k"), case.get("well_phase")] if case.get("well_at") else None
    return rec


def summarize(records, tier, seed):
    nt = set()
    for r in records:
        if r.get("status") == "ok" and (r.get("n_polls") or 0) >= 2 and (r.get("ncalls") or 0) >= 40 and (
                (r.get("n_searches") or 0) >= 2 or r["case"]["spec"]["options"].get("search_n_try") == 0):
            o = r["case"]["spec"]["options"]
            nt.add(C.sig_of(r["case"], tuple(sorted(k for k in o if k not in ("display", "random_seed", "max_fun_evals")))))
    cnt = C.count_sum(records, "C04.")
    wells = {}
    for r in records:
        if r.get("well") and r["well"][2]:
            wells[r["well"][2]] = wells.get(r["well"][2], 0) + 1
    extra = {"events_checked": cnt, "status": C.status_hist(records), "target_calls_logged": C.count_sum(records, "target_calls"),
             "runs_with_a_deep_well_at_the_kth_evaluated_point_by_phase": wells,
             "aborts_by_other_defects": C.other_property_aborts(records, "C04")}
    inconc = None
    if cnt.get("C04.results", 0) == 0:
        inconc = "no completed deterministic run"
    elif C.aborted_fraction(records) > 0.2:
        inconc = "more than 20% of runs aborted by defects of other properties"
    return dict(evaluations=len(records), distinct_nontrivial=len(nt), rule=RULE, samples=C.pick_samples(records, lambda r: r.get("status") == "ok"),
                extra=extra, inconclusive=inconc, min_nontrivial=10)
