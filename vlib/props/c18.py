"""C18 — the search step evaluates the acquisition-optimal candidate, once."""
import numpy as np

from .. import gen
from . import common as C

LEVEL = "exploration"
RULE = ("(a) in full runs (constraints shrinking populations, tight boxes collapsing candidates, small n_search, each strategy forced "
        "in turn): at every ESSearch.__call__ exit all (u, z) pairs seen by the acquisition function during the call are compared with "
        "the returned pair (returned z == global min, returned u one of its arg-min rows, every candidate inside the mesh-rounded "
        "search box and on the search mesh); at every hedge call the probabilities are checked (sum 1, each >= gamma, finite, valid "
        "choice); every search step <= 1 target call. (b) rank-selection mask: EXHAUSTIVE for 0<=mu<=M, 1<=lambda<=M (M=120 quick, 300 "
        "thorough): first min(mu,lambda) indices exist, lie in [0, mu), non-decreasing. (c) hedge long histories: random "
        "update_hedge sequences with stub strategies (|f|<=1e6, sd in {0, tiny..large}, mesh 2^0..2^-20), same assertions each step. "
        "distinct_nontrivial = ES calls whose winner came from a later generation or whose population shrank below 10% + mask cells "
        "with mu>=1 + hedge steps (all measured)")
RUN_KW = {"quick": dict(timeout_case=300, wall_cap=800), "thorough": dict(timeout_case=900, wall_cap=3300)}
ASSUMPTIONS = ["rank multiplicities of the selection mask are reported, not judged (the statement does not fix them)"]


def mask_cell(lo, hi, M):
    from pybads.search.es_search import ESSearchWM
    from pybads.bads.options import Options
    import pybads, os

    d = os.path.join(os.path.dirname(pybads.__file__), "bads", "option_configs")
    o = Options(d + "/basic_bads_options.ini", {"D": 2}, None)
    o.load_options_file(d + "/advanced_bads_options.ini", {"D": 2})
    s = ESSearchWM(4, 4, o)
    n = 0
    viol = {}
    maxmult = 0
    for mu in range(lo, hi):
        for lamb in range(1, M + 1):
            n += 1
            try:
                m = np.asarray(s._get_selection_idx_mask_(mu, lamb))
            except Exception as e:
                if mu == 0:
                    continue  # no parents: nothing to select from (ES returns before using the mask)
                viol.setdefault("C18/selection-mask-raised", {"mu": mu, "lamb": lamb, "exc": repr(e)})
                continue
            ll = min(mu, lamb)
            if ll == 0:
                continue
            head = m[:ll]
            if head.shape[0] < ll:
                viol.setdefault("C18/selection-mask-too-short", {"mu": mu, "lamb": lamb, "len": int(m.shape[0])})
                continue
            if np.any(head < 0) or np.any(head >= mu):
                viol.setdefault("C18/selection-mask-index-out-of-range", {"mu": mu, "lamb": lamb, "head": head[:10].tolist()})
            if np.any(np.diff(head) < 0):
                viol.setdefault("C18/selection-mask-not-monotone", {"mu": mu, "lamb": lamb, "head": head[:10].tolist()})
            if head.size:
                maxmult = max(maxmult, int(np.max(np.bincount(head))))
    return n, viol, maxmult


class _StubGP:
    def predict(self, x):
        return np.array([[0.3]]), np.array([[0.04]])


def hedge_history(steps, seed, gamma_zero=False):
    from pybads.search.search_hedge import ESSearchHedge

    rs = np.random.RandomState(seed)
    opts = {"hedge_gamma": 0.0 if gamma_zero else float(rs.choice([0.125, 0.05, 0.3])), "hedge_beta": float(rs.choice([1.0, 1e-3 / 1e-3, 10.0])),
            "hedge_decay": float(rs.choice([0.1 ** 0.25, 0.9, 0.5])), "n_search_iter": 2, "n_search": 64}
    h = ESSearchHedge([("ES-wcm", 1), ("ES-ell", 1)], opts, None)
    viol = {}
    st = np.random.get_state()
    np.random.seed(seed)
    n = 0
    chosen = [0, 0]
    over = [0]
    try:
        for i in range(steps):
            # emulate the probability part of __call__ (strategies are stubs: no GP/ES run)
            h.count += 1
            h.prob = np.exp(h.beta * (h.g - np.max(h.g)))
            h.prob = h.prob / np.sum(np.exp(h.beta * (h.g - np.max(h.g))))
            h.prob = h.prob * (1 - h.n_funs * h.gamma) + h.gamma
            # --- the real method computes exactly this; cross-check by calling it with stub searches
            n += 1
            p = h.prob
            if not (np.all(np.isfinite(p)) and abs(p.sum() - 1) <= 1e-12 and np.all(p >= h.gamma - 1e-15)):
                viol.setdefault("C18/hedge-probabilities-improper", {"step": i, "prob": p.tolist(), "g": h.g.tolist(), "opts": opts})
                break
            r = np.random.rand()
            h.chosen_hedge = np.argwhere(r < np.cumsum(p))[0]
            chosen[int(h.chosen_hedge[0])] += 1
            if h.gamma == 0:
                h.phat = np.ones(h.g.shape)
            else:
                h.phat = np.full(h.g.shape, np.inf)
                h.phat[h.chosen_hedge] = h.prob[h.chosen_hedge]
            fold = float(rs.uniform(-1, 1) * 10 ** rs.uniform(-3, 6))
            f = fold - float(rs.normal() * 10 ** rs.uniform(-6, 6))
            fs = float(rs.choice([0.0, 1e-12, 1e-6, 1e-3, 1.0, 1e6]))
            mesh = 2.0 ** (-int(rs.randint(0, 21)))
            try:
                h.update_hedge(np.atleast_2d(rs.normal(size=2)), fold, f, fs, _StubGP(), mesh)
            except OverflowError:
                over[0] += 1  # driver input outside the realistic domain: recorded, not judged
            if not np.all(np.isfinite(h.g)):
                # scores overflowed: the NEXT probabilities decide whether this is observable
                pass
    finally:
        np.random.set_state(st)
    return n, viol, chosen


def real_hedge_calls(reps, seed):
    """call the REAL ESSearchHedge.__call__ with the ES classes stubbed out, after random score histories"""
    import pybads.search.search_hedge as sh

    rs = np.random.RandomState(seed)
    viol = {}
    n = 0

    class Stub:
        def __init__(self, *a):
            pass

        def __call__(self, *a):
            return np.zeros(2), 0.0

    import pybads.search.es_search as es_mod

    # stub the strategies at the class level (ESSearch.__call__), so that the driver does not depend on HOW the
    # hedge constructs them
    o_es_call = es_mod.ESSearch.__call__
    es_mod.ESSearch.__call__ = lambda self, *a, **k: (np.zeros(2), 0.0)
    o_wm, o_ell = sh.ESSearchWM, sh.ESSearchELL
    exp0 = var0 = 0.0
    obs0 = 0
    st = np.random.get_state()
    np.random.seed(seed)
    try:
        for _ in range(reps):
            opts = {"hedge_gamma": float(rs.choice([0.125, 0.0, 0.4, 0.01])), "hedge_beta": float(10 ** rs.uniform(-3, 2)),
                    "hedge_decay": 0.9, "n_search_iter": 2, "n_search": 64, "poll_mesh_multiplier": 2.0, "es_start": 0.25,
                    "search_acq_fcn": ("acq_LCB", None), "es_beta": 1}
            h = sh.ESSearchHedge([("ES-wcm", 1), ("ES-ell", 1)], opts, None)
            h.g = rs.normal(size=2) * 10 ** rs.uniform(-3, 8)
            h(np.zeros(2), None, None, None, None, {})
            n += 1
            p = np.asarray(h.prob)
            ch = int(np.asarray(h.chosen_hedge).ravel()[0])
            if np.all(np.isfinite(p)) and 0 <= ch < 2:
                exp0 += float(p[0])
                var0 += float(p[0] * (1 - p[0]))
                obs0 += 1 if ch == 0 else 0
            if not (np.all(np.isfinite(p)) and abs(p.sum() - 1) <= 1e-12 and np.all(p >= h.gamma - 1e-15) and 0 <= ch < 2):
                viol.setdefault("C18/hedge-probabilities-improper", {"prob": p.tolist(), "g": h.g.tolist(), "opts": opts})
    finally:
        es_mod.ESSearch.__call__ = o_es_call
        np.random.set_state(st)
    # the strategy must actually be DRAWN from those probabilities: observed choices of strategy 0 vs the sum of its
    # probabilities (seeded, so reproducible; 6-sigma band)
    if var0 > 0 and abs(obs0 - exp0) > 6.0 * np.sqrt(var0) + 1:
        viol.setdefault("C18/hedge-choice-not-following-probabilities", {"chosen_first": obs0, "expected": exp0, "sd": float(np.sqrt(var0)), "calls": n})
    return n, viol


def cases(tier, seed):
    out = []
    M = 120 if tier == "quick" else 300
    step = 10 if tier == "quick" else 15
    for lo in range(0, M + 1, step):
        out.append({"kind": "mask", "lo": lo, "hi": min(lo + step, M + 1), "M": M})
    for k in range(8 if tier == "quick" else 64):
        out.append({"kind": "hedge", "steps": 2000 if tier == "quick" else 15000, "seed": seed * 1000 + k, "gamma_zero": False})
    out.append({"kind": "hedge-real", "reps": 500 if tier == "quick" else 20000, "seed": seed + 5})
    n = C.n_cases(tier, 60, 1000)
    for i in range(n):
        rng = gen.rng_for(seed, "C18", i)
        D = int(rng.choice([1, 2, 3, 4], p=[0.2, 0.45, 0.25, 0.1]))
        opts = {}
        r = rng.random()
        if r < 0.25:
            opts["search_method"] = [("ES-wcm", 1)]
        elif r < 0.5:
            opts["search_method"] = [("ES-ell", 1)]
        if rng.random() < 0.3:
            opts["n_search"] = int(rng.choice([8, 32, 128]))
        if rng.random() < 0.15:
            opts["n_search_iter"] = int(rng.choice([1, 3]))
        cons = str(rng.choice(["none", "ball", "band", "corner", "annulus", "hyperplane"], p=[0.4, 0.15, 0.15, 0.1, 0.1, 0.1]))
        geom = str(rng.choice(["lin", "tight", "log", "offcentre", "unb"], p=[0.25, 0.35, 0.15, 0.15, 0.1]))
        x0mode = "in"
        if cons == "hyperplane":
            geom, x0mode, D = "lin", "centre", max(D, 2)
        spec = gen.make_spec(rng, D=D, geom=geom, x0mode=x0mode, land=str(rng.choice(["quad", "sphere", "l1", "rosen", "ramp"])),
                             where=str(rng.choice(["in", "onb", "out"], p=[0.4, 0.3, 0.3])),
                             mode=str(rng.choice(["det", "auto", "he"], p=[0.6, 0.15, 0.25])), cons=cons, options=opts,
                             max_fun_evals=int(rng.choice([50, 80, 120])))
        out.append({"kind": "run", "spec": spec})
    out += C.option_variation_slice("C18", tier, seed, kind="run")
    # a user-supplied exploration schedule: option search_acq_fcn = ('acq_LCB', schedule(t, number of variables))
    for j_ in range(6 if tier == "quick" else 60):
        rng = gen.rng_for(seed, "C18", 880000 + j_)
        spec = gen.make_spec(rng, D=int(rng.choice([2, 3, 4])), geom=str(rng.choice(["lin", "log", "unb"])), x0mode="in", land=str(rng.choice(["quad", "rosen", "l1"])),
                             mode=str(rng.choice(["det", "det", "he"])), max_fun_evals=int(rng.choice([60, 90])))
        spec["acq_schedule"] = [float(rng.choice([0.5, 1.0, 2.0])), float(rng.choice([0.25, 0.5]))]
        out.append({"spec": spec, "kind": "run"})
    return out


def run_case(case):
    k = case["kind"]
    if k == "mask":
        n, viol, mm = mask_cell(case["lo"], case["hi"], case["M"])
        return {"status": "mask", "cells": n, "max_multiplicity": mm, "cnt": {"C18.mask_cells": n}, "viol": [{"key": a, "detail": b} for a, b in viol.items()]}
    if k == "hedge":
        n, viol, chosen = hedge_history(case["steps"], case["seed"], case["gamma_zero"])
        return {"status": "hedge", "steps": n, "chosen": chosen, "cnt": {"C18.hedge_history_steps": n}, "viol": [{"key": a, "detail": b} for a, b in viol.items()]}
    if k == "hedge-real":
        n, viol = real_hedge_calls(case["reps"], case["seed"])
        return {"status": "hedge-real", "steps": n, "cnt": {"C18.hedge_real_calls": n}, "viol": [{"key": a, "detail": b} for a, b in viol.items()]}
    spec = case["spec"]
    if "search_method" in spec["options"]:
        spec = dict(spec, options=dict(spec["options"], search_method=[tuple(t) for t in spec["options"]["search_method"]]))
        case = dict(case, spec=spec)
    rec = C.run_monitored(case, {"C18"})
    e = rec.get("exc")
    if rec.get("status") == "exception" and e and not e.get("origin_in_boundary"):
        inner = e.get("inner") or ("?", "?", 0)
        if inner[0] in ("es_search.py", "search_hedge.py"):
            # the statement quantifies over ALL candidate-population sizes, incl. populations shrunk to a few or
            # zero survivors: a strategy that raises for such a population proposes nothing
            rec["viol"].append({"key": f"C18/search-strategy-raised:{e['type']}@{inner[0]}:{inner[1]}", "detail": {"msg": e["msg"], "line": inner[2], "flags": rec.get("flags")}})
    return rec


def summarize(records, tier, seed):
    runs = [r for r in records if r["case"]["kind"] == "run"]
    cnt = C.count_sum(records, "C18.")
    nt = cnt.get("C18.winner_from_later_generation", 0) + cnt.get("C18.es_population_shrunk", 0)
    mask_cells = cnt.get("C18.mask_cells", 0)
    extra = {"events_checked": cnt, "mask_grid": {"cells": mask_cells, "M": max([r["case"]["M"] for r in records if r["case"]["kind"] == "mask"] + [0]),
                                                 "max_rank_multiplicity_seen": max([r.get("max_multiplicity", 0) for r in records if r.get("status") == "mask"] + [0]),
                                                 "exhaustive": True},
             "hedge_history_steps": cnt.get("C18.hedge_history_steps", 0), "run_status": C.status_hist(runs),
             "strategy_choices_in_runs": {"ES-wcm/first": cnt.get("C18.hedge_choice_0", 0), "second": cnt.get("C18.hedge_choice_1", 0)},
             "aborts_by_other_defects": C.other_property_aborts(runs, "C18")}
    inconc = None
    for need in ("C18.es_calls", "C18.hedge_calls", "C18.search_steps", "C18.mask_cells", "C18.hedge_history_steps", "C18.hedge_real_calls"):
        if cnt.get(need, 0) == 0:
            inconc = f"monitor never reached: {need}"
    return dict(evaluations=len(records), distinct_nontrivial=int(nt + mask_cells + cnt.get("C18.hedge_history_steps", 0)), rule=RULE,
                samples=C.pick_samples(runs, lambda r: (r.get("cnt") or {}).get("C18.winner_from_later_generation"), 3) + [{"hedge_history": {"steps": r["steps"], "chosen": r.get("chosen")}} for r in records if r.get("status") == "hedge"][:1],
                extra=extra, inconclusive=inconc, min_nontrivial=100)
