"""Seeded workload generators: problems (bounds geometry, start point), targets,
noise modes, constraints, options.  Everything is a plain-JSON *spec*; `build`
turns a spec into callables.  All draws come from a numpy Generator handed in by the
caller (seeded from [VERIF_SEED, property, case index])."""
import math

import numpy as np

from .util import arr, jsonable

GEOMS = ["lin", "tight", "log", "logedge", "mixedlog", "unb", "mixedunb", "wide", "offcentre", "logdecade", "nicelin", "offset", "nearid"]


def rng_for(seed, prop, idx):
    p = int(prop[1:]) if isinstance(prop, str) else int(prop)
    return np.random.default_rng([int(seed) & 0x7FFFFFFF, p, int(idx)])


# --------------------------------------------------------------------------
# bounds


def gen_bounds(rng, D, geom):
    lb = np.empty(D)
    ub = np.empty(D)
    plb = np.empty(D)
    pub = np.empty(D)
    for i in range(D):
        g = geom
        if geom == "mixedlog":
            g = "log" if (i % 2 == 0) else "lin"
            if D == 1:
                g = "log"
        if geom == "mixedunb":
            g = "unb" if (i % 2 == 0) else "lin"
        if g == "lin":
            lo = rng.uniform(-10, 0)
            w = rng.uniform(1, 20)
            lb[i], ub[i] = lo, lo + w
            plb[i], pub[i] = lo + 0.2 * w, lo + 0.8 * w
        elif g == "tight":
            lo = rng.uniform(-10, 0)
            w = rng.uniform(1, 20)
            lb[i], ub[i] = lo, lo + w
            plb[i], pub[i] = lo, lo + w
        elif g == "log":
            lo = 10 ** rng.uniform(-4, -1)
            hi = lo * 10 ** rng.uniform(2, 5)
            lb[i], ub[i] = lo, hi
            plb[i], pub[i] = lo * 2, hi / 2
        elif g == "logedge":
            lo = 10 ** rng.uniform(-3, 0)
            ratio = 10.0 if rng.random() < 0.5 else 9.999
            lb[i], ub[i] = lo / 3, lo * ratio * 3
            plb[i], pub[i] = lo, lo * ratio
        elif g == "unb":
            lb[i], ub[i] = -np.inf, np.inf
            plb[i] = rng.uniform(-5, 0)
            pub[i] = plb[i] + rng.uniform(1, 10)
        elif g == "wide":
            sc = 10 ** rng.uniform(-6, 6)
            lb[i], ub[i] = -sc, sc * rng.uniform(0.5, 2)
            plb[i], pub[i] = lb[i] / 2, ub[i] / 2
        elif g == "logdecade":
            # decade-aligned bounds as users write them (0.01, 1, 10, 100): the transformed
            # hard bounds are small integers / dyadic values, i.e. exactly ON the search mesh
            a = int(rng.integers(-4, 1))
            p_, q_, r_ = int(rng.choice([0, 1, 2], p=[0.2, 0.4, 0.4])), int(rng.choice([1, 2])), int(rng.choice([0, 1, 2], p=[0.2, 0.4, 0.4]))
            lb[i], plb[i], pub[i], ub[i] = 10.0 ** a, 10.0 ** (a + p_), 10.0 ** (a + p_ + q_), 10.0 ** (a + p_ + q_ + r_)
        elif g == "nicelin":
            # hard bounds an integer number of plausible half-widths from the centre, with
            # non-dyadic centre/half-width: transformed bounds are integers (on the mesh)
            # while the inverse map is not bit-exact
            mu_ = float(np.round(rng.uniform(-3, 3), 1))
            ga_ = float(rng.choice([0.3, 0.7, 1.1, 0.15, 2.3]))
            k_, m_ = int(rng.integers(1, 5)), int(rng.integers(1, 5))
            plb[i], pub[i] = mu_ - ga_, mu_ + ga_
            lb[i], ub[i] = mu_ - k_ * ga_, mu_ + m_ * ga_
        elif g == "offset":
            # coordinates large relative to the box width (temperatures in Kelvin, calendar years, ...)
            c_ = float(rng.choice([300.0, 2010.0, -1500.0, 1e4])) * float(rng.uniform(0.9, 1.1))
            w = float(rng.uniform(2, 30))
            lb[i], ub[i] = c_ - w / 2, c_ + w / 2
            plb[i], pub[i] = lb[i] + 0.2 * w, ub[i] - 0.2 * w
        elif g == "nearid":
            # internal coordinates almost equal to the user's (plausible box ~[-1,1]): x/u mix-ups stay plausible
            plb[i], pub[i] = -1.0 + float(rng.uniform(-0.02, 0.02)), 1.0 + float(rng.uniform(-0.02, 0.02))
            lb[i], ub[i] = -float(rng.choice([2.0, 3.0, 5.0])), float(rng.choice([2.0, 3.0, 5.0]))
        elif g == "offcentre":
            lo = rng.uniform(-10, 0)
            w = rng.uniform(1, 20)
            lb[i], ub[i] = lo, lo + w
            if rng.random() < 0.5:
                plb[i], pub[i] = lo, lo + 0.1 * w
            else:
                plb[i], pub[i] = lo + 0.9 * w, lo + w
        else:
            raise ValueError(geom)
    return lb, ub, plb, pub


def is_log_coord(lb, ub, plb, pub):
    with np.errstate(all="ignore"):
        return (lb > 0) & (ub > 0) & (plb > 0) & (pub > 0) & (pub / np.where(plb != 0, plb, np.nan) >= 10)


def tmap(x, plb, pub, logm):
    """normalised coordinate t: plausible box -> [0,1] (log-affine for log coords)"""
    x = np.asarray(x, float)
    with np.errstate(all="ignore"):
        tl = (np.log(np.where(logm, np.maximum(x, 1e-300), 1.0)) - np.log(np.where(logm, plb, 1.0))) / np.where(
            logm, np.log(np.where(logm, pub, math.e)) - np.log(np.where(logm, plb, 1.0)), 1.0
        )
        ta = (x - plb) / (pub - plb)
    return np.where(logm, tl, ta)


def tinv(t, plb, pub, logm):
    t = np.asarray(t, float)
    with np.errstate(all="ignore"):
        xl = np.exp(np.log(np.where(logm, plb, 1.0)) + t * (np.log(np.where(logm, pub, math.e)) - np.log(np.where(logm, plb, 1.0))))
        xa = plb + t * (pub - plb)
    return np.where(logm, xl, xa)


def gen_x0(rng, mode, lb, ub, plb, pub, logm):
    D = len(lb)
    if mode == "none":
        return None
    if mode == "in":
        return tinv(rng.uniform(0.05, 0.95, D), plb, pub, logm)
    if mode == "centre":
        return tinv(np.full(D, 0.5), plb, pub, logm)
    if mode == "onlb":
        return np.where(np.isfinite(lb), lb, plb)
    if mode == "onub":
        return np.where(np.isfinite(ub), ub, pub)
    if mode == "nearlb":
        with np.errstate(all="ignore"):
            x = np.where(np.isfinite(lb), lb + 1e-12 * np.maximum(1.0, np.abs(lb)), plb)
        return np.minimum(x, np.where(np.isfinite(ub), ub, np.inf))
    if mode in ("effub", "efflb"):
        # just inside the 'effective' bounds (0.1% of the hard range from the bound): not moved by the
        # constructor, outside the plausible box, a fraction of a search-mesh step from the hard bound
        rngw = np.where(np.isfinite(ub - lb), ub - lb, 1e3)
        if mode == "effub":
            x = np.where(np.isfinite(ub), ub - 1.0001e-3 * rngw, pub)
        else:
            x = np.where(np.isfinite(lb), lb + 1.0001e-3 * rngw, plb)
        return x
    if mode == "outpl":
        # outside plausible but inside hard bounds
        x = np.empty(D)
        for i in range(D):
            if np.isfinite(lb[i]) and plb[i] > lb[i]:
                x[i] = 0.5 * (lb[i] + plb[i])
            elif np.isfinite(ub[i]) and pub[i] < ub[i]:
                x[i] = 0.5 * (ub[i] + pub[i])
            elif not np.isfinite(lb[i]):
                x[i] = plb[i] - 0.5 * (pub[i] - plb[i])
            else:
                x[i] = 0.5 * (plb[i] + pub[i])
        return x
    raise ValueError(mode)


X0MODES = ["none", "in", "centre", "onlb", "onub", "nearlb", "outpl"]
X0MODES_EXTRA = ["effub", "efflb"]


# --------------------------------------------------------------------------
# targets (functions of the normalised coordinate t)

LANDS = ["quad", "sphere", "l1", "rosen", "stair", "maxkink", "ramp", "needle", "const", "bowl4"]
LANDS_EXTRA = ["wl1"]


def gen_target(rng, D, land, where, tl, tu):
    """where: 'in' | 'onb' | 'out' : location of the optimum c relative to the hard
    box expressed in t (tl, tu may be infinite)."""
    c = rng.uniform(0.15, 0.85, D)
    if where in ("onb", "out"):
        for i in range(D):
            side_hi = rng.random() < 0.5
            if side_hi and np.isfinite(tu[i]):
                c[i] = tu[i] + (0.0 if where == "onb" else 0.5 + rng.random())
            elif np.isfinite(tl[i]):
                c[i] = tl[i] - (0.0 if where == "onb" else 0.5 + rng.random())
            elif np.isfinite(tu[i]):
                c[i] = tu[i] + (0.0 if where == "onb" else 0.5 + rng.random())
    t = {"kind": land, "c": c.tolist(), "where": where}
    if land == "quad":
        eig = 10 ** rng.uniform(0, 2, D)
        Q, _ = np.linalg.qr(rng.normal(size=(D, D)))
        A = Q @ np.diag(eig) @ Q.T
        t["A"] = A.tolist()
    elif land == "l1":
        t["scale"] = float(rng.choice([1.0, 50.0]))
    elif land == "wl1":
        t["w"] = (10 ** rng.uniform(-1, 1, D)).tolist()  # anisotropic: several poll directions improve by different amounts
    elif land == "stair":
        t["steps"] = float(rng.choice([4.0, 10.0, 40.0]))
    elif land == "const":
        t["value"] = float(rng.choice([0.0, 1.0, -3.5]))
    return t


def eval_land(t, tt):
    """noise-free landscape value at normalised coordinate tt (1-D array)."""
    base = _eval_land(t, tt)
    for w in t.get("wells") or []:
        # narrow deep well centred at a normalised point (C04 workload: 'the k-th evaluated point is the best')
        if float(np.max(np.abs(tt - np.asarray(w["t"])))) <= w.get("r", 1e-9):
            base = min(base, w["v"])
    return base


def _eval_land(t, tt):
    k = t["kind"]
    d = tt - np.asarray(t["c"])
    if k == "quad":
        A = np.asarray(t["A"])
        return float(d @ A @ d)
    if k == "sphere":
        return float(d @ d)
    if k == "l1":
        return float(t["scale"] * np.sum(np.abs(d)))
    if k == "wl1":
        return float(np.sum(np.asarray(t["w"]) * np.abs(d)))
    if k == "scripted":
        return 0.0  # values are produced by the monitor (outcome script), see runmon._scripted_value
    if k == "rosen":
        z = 4.0 * d + 1.0  # optimum at d = 0  (z = 1)
        if len(z) == 1:
            return float((1 - z[0]) ** 2)
        return float(np.sum(100.0 * (z[1:] - z[:-1] ** 2) ** 2 + (1 - z[:-1]) ** 2))
    if k == "stair":
        s = t["steps"]
        return float(np.floor(s * (d @ d)) / s)
    if k == "maxkink":
        return float(np.max(np.abs(d)))
    if k == "ramp":
        return float(np.sum(tt))
    if k == "needle":
        r2 = float(d @ d)
        return float(1.0 - math.exp(-50.0 * r2) + 0.01 * math.sin(37.0 * float(np.sum(tt * np.arange(1, len(tt) + 1)))))
    if k == "const":
        return float(t["value"])
    if k == "bowl4":
        return float(np.sum(d**4) + 0.1 * np.sum(d**2))
    raise ValueError(k)


# --------------------------------------------------------------------------
# constraints (violation functions of X (N,D) in original coordinates)

CONS = ["none", "halfspace", "ball", "annulus", "band", "hyperplane", "corner", "stripes"]


def gen_cons(rng, D, kind, x0t, infeasible_start=False):
    """x0t: normalised coordinate of the intended start (kept feasible with margin
    where the family allows; infeasible_start=True puts the start outside instead)."""
    c = {"kind": kind, "ret": str(rng.choice(["bool", "float"]))}
    sgn = -1.0 if infeasible_start else 1.0
    if kind == "none":
        return c
    if kind == "halfspace":
        a = rng.normal(size=D)
        a /= np.linalg.norm(a)
        c["a"] = a.tolist()
        c["b"] = float(a @ x0t + sgn * rng.uniform(0.05, 0.4))  # feasible: a.t <= b
    elif kind == "ball":
        ctr = x0t + rng.normal(size=D) * 0.1
        c["ctr"] = ctr.tolist()
        c["r"] = float(max(1e-3, np.linalg.norm(x0t - ctr) + sgn * rng.uniform(0.15, 0.6))) if not infeasible_start else float(np.linalg.norm(x0t - ctr) * rng.uniform(0.2, 0.8))
    elif kind == "annulus":
        ctr = x0t + rng.normal(size=D)
        ctr = x0t + (ctr - x0t) / max(np.linalg.norm(ctr - x0t), 1e-9) * rng.uniform(0.3, 0.6)
        r = float(np.linalg.norm(x0t - ctr))
        c["ctr"] = ctr.tolist()
        c["r1"] = r - 0.15
        c["r2"] = r + 0.15
    elif kind == "band":
        a = rng.normal(size=D)
        a /= np.linalg.norm(a)
        c["a"] = a.tolist()
        c["ctr"] = x0t.tolist()
        c["w"] = float(10 ** rng.uniform(-2.5, -1))
    elif kind == "hyperplane":
        # feasible set of measure zero: coordinate 0 must equal the start exactly
        # (in original coordinates; filled by make_spec)
        c["x0_0"] = None
    elif kind == "stripes":
        # many thin feasible stripes (lots of boundary): feasible iff cos(2*pi*f*(a.(t-x0t))) >= thr
        a = rng.normal(size=D)
        a /= np.linalg.norm(a)
        c["a"] = a.tolist()
        c["ctr"] = x0t.tolist()
        c["freq"] = float(rng.choice([3.0, 8.0, 20.0]))
        c["thr"] = float(rng.choice([0.0, 0.5]))
    elif kind == "corner":
        # non-convex: infeasible iff all t_i > ctr_i (an orthant removed)
        c["ctr"] = (x0t + sgn * rng.uniform(0.05, 0.3, D)).tolist()
    return c


def eval_cons(c, X, plb, pub, logm):
    X = np.atleast_2d(np.asarray(X, float))
    k = c["kind"]
    if X.shape[0] == 0 or X.size == 0:
        return np.zeros(0, dtype=bool) if c.get("ret") == "bool" else np.zeros(0)
    if k == "hyperplane":
        v = np.abs(X[:, 0] - c["x0_0"])
        viol = v  # > 0 when off the plane
    else:
        T = np.vstack([tmap(x, plb, pub, logm) for x in X])
        if k == "halfspace":
            viol = T @ np.asarray(c["a"]) - c["b"]
        elif k == "ball":
            viol = np.linalg.norm(T - np.asarray(c["ctr"]), axis=1) - c["r"]
        elif k == "annulus":
            r = np.linalg.norm(T - np.asarray(c["ctr"]), axis=1)
            viol = np.maximum(c["r1"] - r, r - c["r2"])
        elif k == "band":
            viol = np.abs((T - np.asarray(c["ctr"])) @ np.asarray(c["a"])) - c["w"]
        elif k == "stripes":
            viol = c["thr"] - np.cos(2 * np.pi * c["freq"] * ((T - np.asarray(c["ctr"])) @ np.asarray(c["a"])))
        elif k == "corner":
            viol = np.min(T - np.asarray(c["ctr"]), axis=1)
        else:
            raise ValueError(k)
    if c.get("ret") == "bool":
        return viol > 0
    return viol


# --------------------------------------------------------------------------
# whole problem spec

MODES = ["det", "auto", "declared", "declared+size", "he"]


def make_spec(
    rng,
    D=None,
    geom=None,
    x0mode=None,
    land=None,
    where=None,
    mode=None,
    cons=None,
    options=None,
    sigma=None,
    noise_src="global",
    max_fun_evals=None,
    infeasible_start=False,
):
    D = int(D if D is not None else rng.choice([1, 2, 3], p=[0.3, 0.45, 0.25]))
    geom = geom or str(rng.choice(GEOMS))
    lb, ub, plb, pub = gen_bounds(rng, D, geom)
    logm = is_log_coord(lb, ub, plb, pub)
    x0mode = x0mode or str(rng.choice(X0MODES))
    x0 = gen_x0(rng, x0mode, lb, ub, plb, pub, logm)
    with np.errstate(all="ignore"):
        tl = tmap(np.where(np.isfinite(lb), lb, plb), plb, pub, logm)
        tl = np.where(np.isfinite(lb), tl, -np.inf)
        tu = tmap(np.where(np.isfinite(ub), ub, pub), plb, pub, logm)
        tu = np.where(np.isfinite(ub), tu, np.inf)
    land = land or str(rng.choice(LANDS))
    where = where or str(rng.choice(["in", "onb", "out"], p=[0.5, 0.25, 0.25]))
    target = gen_target(rng, D, land, where, tl, tu)
    mode = mode or str(rng.choice(MODES))
    if sigma is None:
        sigma = float(10 ** rng.uniform(-3, 1))
    noise = {"mode": mode, "sigma": sigma if mode != "det" else 0.0, "src": noise_src}
    cons_kind = cons or "none"
    x0t = tmap(x0, plb, pub, logm) if x0 is not None else np.full(D, 0.5)
    cspec = gen_cons(rng, D, cons_kind, np.asarray(x0t, float), infeasible_start=infeasible_start)
    if cons_kind == "hyperplane":
        cspec["x0_0"] = float(x0[0]) if x0 is not None else float(tinv(np.full(D, 0.5), plb, pub, logm)[0])
    opts = {"display": "off", "random_seed": int(rng.integers(0, 2**31 - 1))}
    if max_fun_evals is not None:
        opts["max_fun_evals"] = int(max_fun_evals)
    if mode == "declared":
        opts["uncertainty_handling"] = True
    elif mode == "declared+size":
        opts["uncertainty_handling"] = True
        opts["noise_size"] = float(sigma)
    elif mode == "he":
        opts["uncertainty_handling"] = True
        opts["specify_target_noise"] = True
    if options:
        opts.update(options)
    spec = {
        "D": D,
        "geom": geom,
        "lb": jsonable(lb),
        "ub": jsonable(ub),
        "plb": jsonable(plb),
        "pub": jsonable(pub),
        "x0mode": x0mode,
        "x0": jsonable(x0) if x0 is not None else None,
        "target": target,
        "noise": noise,
        "cons": cspec,
        "options": opts,
    }
    return spec


class Problem:
    """Callables built from a spec.  `fun` is the *raw* user target (no recording);
    monitors wrap it."""

    def __init__(self, spec):
        self.spec = spec
        self.D = spec["D"]
        self.lb = arr(spec["lb"])
        self.ub = arr(spec["ub"])
        self.plb = arr(spec["plb"])
        self.pub = arr(spec["pub"])
        self.x0 = arr(spec["x0"]) if spec.get("x0") is not None else None
        self.logm = is_log_coord(self.lb, self.ub, self.plb, self.pub)
        self.target = spec["target"]
        self.noise = spec["noise"]
        self.cons_spec = spec.get("cons") or {"kind": "none"}
        self.options = dict(spec.get("options") or {})
        self.mode = self.noise["mode"]
        try:
            sd_ = int(self.options.get("random_seed") or 0)
        except (TypeError, ValueError):
            sd_ = 0
        self._priv = np.random.default_rng(sd_ + 12345)

    def _tframe(self):
        fr = self.spec.get("target_frame")
        if fr is None:
            return self.plb, self.pub, self.logm
        if getattr(self, "_tf", None) is None:
            fl, fu, fpl, fpu = (arr(fr[k]) for k in ("lb", "ub", "plb", "pub"))
            self._tf = (fpl, fpu, is_log_coord(fl, fu, fpl, fpu))
        return self._tf

    def clean(self, x):
        x = np.asarray(x, float).ravel()
        return eval_land(self.target, tmap(x, *self._tframe()))

    def sd_at(self, x):
        x = np.asarray(x, float).ravel()
        tt = tmap(x, *self._tframe())
        return float(self.noise["sigma"] * (1.0 + 0.5 * float(np.sum(np.abs(tt - 0.5)))))

    def _randn(self):
        if self.noise.get("src") == "private":
            return float(self._priv.standard_normal())
        return float(np.random.randn())

    def fun(self, x):
        """the user's target; spec['ret_spelling'] selects another VALID spelling of the returned value"""
        r = self._fun_float(x)
        sp = self.spec.get("ret_spelling")
        if not sp:
            return r

        def conv(v):
            if sp == "np64":
                return np.float64(v)
            if sp == "np32":
                return np.float32(v)
            if sp == "int":
                return int(np.round(v * 16))  # an integer-valued target (counts)
            if sp == "npint":
                return np.int64(np.round(v * 16))
            if sp == "0d":
                return np.array(v)
            if sp == "arr1":
                return np.array([v])
            raise ValueError(sp)

        return (conv(r[0]), r[1]) if isinstance(r, tuple) else conv(r)

    def _fun_float(self, x):
        v = self.clean(x)
        m = self.mode
        if m == "det":
            return v
        if m == "he":
            s = self.sd_at(x)
            return v + s * self._randn(), s
        return v + self.noise["sigma"] * self._randn()

    @property
    def cons(self):
        if self.cons_spec["kind"] == "none":
            return None
        fr = self.spec.get("cons_frame")
        if fr is not None:
            # the region is defined in the coordinates of ANOTHER problem (same x-space region shared by several problems)
            fl, fu, fpl, fpu = (arr(fr[k]) for k in ("lb", "ub", "plb", "pub"))
            flog = is_log_coord(fl, fu, fpl, fpu)
            return lambda X: eval_cons(self.cons_spec, X, fpl, fpu, flog)
        return lambda X: eval_cons(self.cons_spec, X, self.plb, self.pub, self.logm)

    def bads_args(self, spelling="2d"):
        def sp(v):
            if v is None:
                return None
            if spelling == "2d":
                return np.atleast_2d(v).copy()
            if spelling == "1d":
                return np.asarray(v).copy()
            if spelling == "list":
                return [float(t) for t in v]
            if spelling == "x0f32":
                return np.atleast_2d(v).copy()
            raise ValueError(spelling)

        x0a = sp(self.x0)
        if spelling == "x0f32" and self.x0 is not None:
            # the start as a float32 array (what a float32 pipeline hands over); rounded TOWARDS the box centre so that the
            # float32 value is still inside the bounds
            x32 = np.asarray(self.x0, np.float32)
            ctr = 0.5 * (np.where(np.isfinite(self.lb), self.lb, self.plb) + np.where(np.isfinite(self.ub), self.ub, self.pub))
            x32 = np.where(x32.astype(float) > self.x0, np.where(self.x0 > ctr, np.nextafter(x32, np.float32(-np.inf)), x32), np.where(self.x0 < ctr, np.nextafter(x32, np.float32(np.inf)), x32)).astype(np.float32)
            x0a = np.atleast_2d(x32)
        return dict(
            x0=x0a,
            lower_bounds=sp(self.lb),
            upper_bounds=sp(self.ub),
            plausible_lower_bounds=sp(self.plb),
            plausible_upper_bounds=sp(self.pub),
        )


def brief(spec):
    """compact description of a spec for evidence samples"""
    return {
        "D": spec["D"],
        "geom": spec["geom"],
        "x0mode": spec["x0mode"],
        "land": spec["target"]["kind"],
        "where": spec["target"].get("where"),
        "mode": spec["noise"]["mode"],
        "sigma": spec["noise"]["sigma"],
        "cons": spec["cons"]["kind"],
        "options": {k: v for k, v in spec["options"].items() if k != "display"},
        "lb": spec["lb"],
        "ub": spec["ub"],
        "plb": spec["plb"],
        "pub": spec["pub"],
        "x0": spec["x0"],
    }
