"""Instrumented execution of one real BADS run.

`RunMonitor(spec, oracles).run()` builds the problem, installs wrappers on the seams
(consumer namespaces, restored afterwards), installs the loop probe of the guarded
source hook, runs the real constructor + optimize(), and judges the recorded events
with the per-property oracles.  Every oracle counts how many deciding events it saw.

Monitor state lives in the same (only) thread as the code it shadows.
"""
import copy
import math
import os
import sys
import traceback

import numpy as np

from . import gen
from .models import LoggerModel
from .util import jsonable

ALL = {"C01", "C02", "C03", "C04", "C05", "C09", "C12", "C13", "C14", "C15", "C17", "C18", "C19"}


class NonProgress(Exception):
    """raised by the loop probe to abort a run that violates bounded progress"""


class InjectedFault(Exception):
    pass


def _bits(a):
    # (+ 0.0 maps the negative zero to the positive one: -0.0 == 0.0 numerically, but their bytes differ, and mesh
    # arithmetic produces both spellings of a coordinate that is exactly zero)
    return np.ascontiguousarray(np.asarray(a, dtype=float) + 0.0).tobytes()


def safe(fn):
    """monitor callbacks never raise into pybads (except the deliberate aborts):
    a crash of monitor code is a FRAMEWORK error, recorded and reported as such"""
    import functools

    @functools.wraps(fn)
    def w(self, *a, **k):
        try:
            return fn(self, *a, **k)
        except (NonProgress, InjectedFault):
            raise
        except Exception as e:  # noqa
            if len(self.monitor_errors) < 3:
                self.monitor_errors.append(fn.__name__ + ": " + "".join(traceback.format_exception(type(e), e, e.__traceback__))[-1200:])
            return None

    return w


class Patch:
    def __init__(self):
        self.saved = []

    def set(self, obj, name, new):
        self.saved.append((obj, name, obj.__dict__[name] if isinstance(obj, type) and name in obj.__dict__ else getattr(obj, name), isinstance(obj, type) and name not in obj.__dict__))
        setattr(obj, name, new)

    def restore(self):
        for obj, name, old, was_inherited in reversed(self.saved):
            if was_inherited:
                try:
                    delattr(obj, name)
                except Exception:
                    setattr(obj, name, old)
            else:
                setattr(obj, name, old)
        self.saved = []


class SharedCons:
    """a single callable object that stays the same across several monitored runs (dispatches to the current monitor)"""

    mon = None

    def __call__(self, X):
        return self.mon._cons(X)

    def __deepcopy__(self, memo):
        return self


class RunMonitor:
    MAX_VIOL_PER_KEY = 3

    def __init__(self, spec, oracles=None, fault=None, gp_fault=None, filter_script=None, construct_only=False, gp_update_fault=None, second_run=False, shared_cons=None, prelude=False, gp_fault_late=None):
        self.spec = spec
        self.gp_fault_late = set(gp_fault_late or [])  # C16: fits that fail LATE (in their final posterior factorisation)
        self.in_late_fit = None
        self.prelude = prelude  # process history: an unmonitored sibling run sharing the callables (see _run_prelude)
        self.in_prelude = False
        self.P_pre = None
        self.shared_cons = shared_cons  # C02: ONE constraint callable object handed to several BADS runs in turn
        self.P = gen.Problem(spec)
        self.want = set(oracles) if oracles is not None else set(ALL)
        self.fault = fault  # C10: dict(k=..., kind=...)
        self.gp_fault = set(gp_fault or [])  # C16: invocation indices of GP.fit that raise
        self.gp_update_fault = set(gp_update_fault or [])  # C16: indices of the posterior update inside local_gp_fitting that raise
        self.gp_update_idx = 0
        self.gp_updates_faulted = 0
        self.filter_script = filter_script  # C03 outcome injection
        self.construct_only = construct_only
        self.second_run = second_run
        self.viol = []
        self.viol_count = {}
        self.cnt = {}
        self.calls = []
        self.cons_calls = 0
        self.phase = None
        self.after_loop = False
        self.bads = None
        self.result = None
        self.exc = None
        self.loops = []
        self.polls = []
        self.searches = []
        self.filters = 0
        self.cur_poll = None
        self.cur_search = None
        self.cur_es = None
        self.cur_flcall = None
        self.evaluated = {}  # bits(u) -> count (recorded evaluations, internal coords)
        self.seen_u_time = {}
        self.last_filter_carry = {}  # bits(u) -> dict(fresh_violation=bool, site)
        self.gp_fit_idx = 0
        self.gp_fits = []
        self.row_hist = {}  # log row idx -> list of (y, s)
        self.model = None
        self.n_at_loop_start = None
        self.consec_noeval = 0
        self.max_consec_noeval = 0
        self.flags = set()
        self.monitor_errors = []
        self.struct_notes = []
        self.last_neighbors = None
        self.n_incumbent_updates = 0
        self._prev_loop_u = None
        self._prev_loop_upd = 0
        try:
            sd_ = int(spec["options"].get("random_seed") or 0)
        except (TypeError, ValueError):
            sd_ = 0
        self.rng = np.random.default_rng(sd_ + 7)

    # ------------------------------------------------------------------ utils
    def c(self, name, n=1):
        self.cnt[name] = self.cnt.get(name, 0) + n

    def struct(self, key, **detail):
        """a seam did not behave the way the monitor's instrumentation assumes (e.g. an internal helper was
        inlined or is reached through another name): NOT a property violation - the run is inconclusive"""
        self.c("STRUCT." + key)
        if len(self.struct_notes) < 5:
            self.struct_notes.append({"key": key, "detail": jsonable(detail)})

    def v(self, key, **detail):
        n = self.viol_count.get(key, 0)
        self.viol_count[key] = n + 1
        if n < self.MAX_VIOL_PER_KEY:
            self.viol.append({"key": key, "detail": jsonable(detail)})

    # ------------------------------------------------------------- boundaries
    def _target(self, x):
        if self.in_prelude:
            return self.P_pre.fun(x)
        P = self.P
        k = len(self.calls)
        xx = np.array(x, dtype=float, copy=True).ravel()
        phase = self._phase_name()
        ev = {"k": k, "x": xx, "phase": phase, "poll": self.cur_poll["id"] if self.cur_poll else None,
              "search": self.cur_search["id"] if self.cur_search else None,
              "record": self.cur_flcall["record"] if self.cur_flcall else None,
              "u": self.cur_flcall["u"] if self.cur_flcall else None}
        self.calls.append(ev)
        if self.cur_poll is not None:
            self.cur_poll["evals"].append(ev)
        if self.cur_search is not None:
            self.cur_search["evals"].append(ev)
        self.c("target_calls")
        if "C01" in self.want:
            self.c("C01.target_points")
            if not (np.all(np.isfinite(xx)) and np.all(xx >= P.lb) and np.all(xx <= P.ub)):
                self.v("C01/target-outside-box", k=k, x=xx, lb=P.lb, ub=P.ub, phase=phase)
            if np.any(xx == P.lb) or np.any(xx == P.ub):
                self.flags.add("on-bound-eval")
        if "C02" in self.want and P.cons is not None:
            cv = np.asarray(P.cons(xx[None, :])).ravel()[0]
            self.c("C02.target_points")
            if cv > 0:
                self.v("C02/target-infeasible", k=k, x=xx, cons=cv, phase=phase)
        # ---- fault injection (C10)
        if self.fault is not None and k == self.fault["k"]:
            self.fault["delivered"] = True
            self.fault["phase"] = phase
            return self._deliver_fault(x, ev)
        if self.fault is not None and self.fault.get("delivered"):
            self.fault["called_after"] = self.fault.get("called_after", 0) + 1
        try:
            res = self._scripted_value(xx, phase) if P.target.get("kind") == "scripted" else P.fun(x)
        except BaseException as e:  # pragma: no cover (raw targets do not raise)
            ev["exc"] = repr(e)
            raise
        if P.mode == "he":
            ev["y"], ev["s"] = float(np.asarray(res[0]).ravel()[0]), float(res[1])
        else:
            ev["y"], ev["s"] = float(np.asarray(res).ravel()[0]), None
        return res

    def _scripted_value(self, xx, phase):
        """Outcome injection at the target: the value returned at a NEW point is chosen from a per-phase
        script over {S: improves on everything seen by 2.0 (> any forcing function), I: improves by 1e-5
        (< tol_fun: 'incremental'), F: worse than everything seen, T: ties the best}.  Values are cached
        per point, so the target remains a deterministic function of x.  This drives the controller through
        search/poll outcome sequences (long success streaks at the mesh cap, alternations, all-fail, ties)
        that smooth landscapes never produce."""
        t = self.P.target
        st = self.__dict__.setdefault("_script", {"cache": {}, "best": 0.0, "i": {"search": 0, "poll": 0, "other": 0}})
        key = xx.tobytes()
        if key in st["cache"]:
            return st["cache"][key]
        ph = phase if phase in ("search", "poll") else "other"
        pat = t.get(ph) or "F"
        o = pat[st["i"][ph] % len(pat)]
        st["i"][ph] += 1
        if not st["cache"]:
            v = 0.0
        elif o == "S":
            v = st["best"] - 2.0
        elif o == "I":
            v = st["best"] - 1e-5
        elif o == "T":
            v = st["best"]
        else:
            v = st["best"] + 1.0 + 0.01 * (len(st["cache"]) % 7)
        st["best"] = min(st["best"], v)
        st["cache"][key] = v
        self.c("scripted_outcomes." + ph + "." + o)
        return v

    def _deliver_fault(self, x, ev):
        kind = self.fault["kind"]
        ev["fault"] = kind
        P = self.P
        if kind.startswith("raise:"):
            name = kind.split(":", 1)[1]
            if name == "Custom":
                exc = _CustomError("boom", code=7)
            elif name == "LinAlgError":
                exc = np.linalg.LinAlgError("injected")
            else:
                exc = {"ValueError": ValueError, "RuntimeError": RuntimeError, "ZeroDivisionError": ZeroDivisionError,
                       "KeyError": KeyError, "IndexError": IndexError, "AttributeError": AttributeError,
                       "FloatingPointError": FloatingPointError, "StopIteration": StopIteration, "AssertionError": AssertionError,
                       "OverflowError": OverflowError, "TypeError": TypeError, "LookupError": LookupError,
                       "ArithmeticError": ArithmeticError, "OSError": OSError, "NotImplementedError": NotImplementedError}[name]("injected")
            self.fault["exc_obj"] = exc
            raise exc
        good = P.clean(x)
        sd = P.sd_at(x) if P.mode == "he" else None
        vals = {
            "nan": float("nan"), "inf": float("inf"), "-inf": float("-inf"), "complex": complex(1.0, 2.0),
            "vec2": np.array([good, good]), "list2": [good, good], "none": None, "str": "1.0",
            "npnan": np.float64("nan"), "arrnan": np.array([np.nan]), "empty": np.array([]),
            # a complex value whose imaginary part is round-off sized is still not a real scalar
            "complex-tiny-np": np.complex128(complex(good, 1e-12)), "complex-tiny-py": complex(good, 3e-9),
        }
        if kind.startswith("val:"):
            v = vals[kind.split(":", 1)[1]]
            return (v, sd) if P.mode == "he" else v
        if kind.startswith("sd:"):
            sdv = {"zero": 0.0, "neg": -1.0, "nan": float("nan"), "inf": float("inf"), "complex": complex(0.1, 0.1),
                   "vec2": np.array([0.1, 0.1]), "-inf": float("-inf"), "arrneg": np.array([-0.5])}[kind.split(":", 1)[1]]
            return (good, sdv)
        if kind.startswith("form:"):
            f = kind.split(":", 1)[1]
            if f == "scalar":
                return good
            if f == "triple":
                return (good, sd, 1.0)
            if f == "listpair":
                return [good, sd]
            if f == "single":
                return (good,)
        raise ValueError(kind)

    def _cons(self, X):
        if self.in_prelude:
            return self.P_pre.cons(X)
        P = self.P
        self.cons_calls += 1
        XX = np.atleast_2d(np.asarray(X, float))
        if "C01" in self.want:
            self.c("C01.cons_points", XX.shape[0])
            bad = ~(np.all(XX >= P.lb, axis=1) & np.all(XX <= P.ub, axis=1))
            if np.any(bad):
                self.v("C01/cons-outside-box", x=XX[bad][0], lb=P.lb, ub=P.ub, phase=self._phase_name())
        return P.cons(X)

    def _phase_name(self):
        # called before the new event is appended: len(self.calls) = calls done
        if self.cur_poll is not None:
            return "poll"
        if self.cur_search is not None:
            return "search"
        if self.phase == "init":
            if len(self.calls) == 0:
                return "x0"
            if self.cur_flcall is not None and self.cur_flcall["record"] is False:
                return "noisetest"
            return "design"
        if self.after_loop:
            return "final"
        return "other"

    # ------------------------------------------------------------ seam: logger
    def _wrap_logger(self, patch):
        import pybads.function_logger.function_logger as flm

        FL = flm.FunctionLogger
        mon = self
        orig_call = FL.__call__

        def call(fl, x, record_duplicate_data=True):
            if fl is not mon.fl:
                return orig_call(fl, x, record_duplicate_data)
            u = np.array(x, float, copy=True).ravel()
            prev = mon.cur_flcall
            mon.cur_flcall = {"u": u, "record": bool(record_duplicate_data)}
            n_before = len(mon.calls)
            try:
                out = orig_call(fl, x, record_duplicate_data)
            finally:
                mon.cur_flcall = prev
            ev = mon.calls[n_before] if len(mon.calls) > n_before else None
            mon._after_logger_call(fl, u, bool(record_duplicate_data), out, ev)
            return out

        patch.set(FL, "__call__", call)

    @safe
    def _after_logger_call(self, fl, u, record, out, ev):
        fval, fsd, idx = out
        if ev is not None:
            ev["ret_fval"] = float(np.asarray(fval).ravel()[0])
            ev["idx"] = idx
        b = _bits(u)
        if record:
            self.evaluated[b] = self.evaluated.get(b, 0) + 1
        # C17 consequence: repeated evaluation of a deterministic target
        if "C17" in self.want and record and self.P.mode == "det" and self.evaluated[b] > 1:
            self.c("C17.repeat_evals")
            carry = self.last_filter_carry.get(b)
            prev = self.calls[-2] if len(self.calls) >= 2 else None
            if ev and prev is not None and prev.get("u") is not None and np.array_equal(prev["u"], u) and prev.get("phase") == "search" and ev.get("phase") == "search":
                # (two search steps in a row at the same point: happens on the unchanged tree as well - part of the
                # open finding - so it is counted, not keyed separately)
                self.c("C17.consecutive_search_repeats")
            if carry is not None and carry["was_logged"]:
                self.v("C17/no-repeat-eval-via-unfiltered-candidate", u=u, site=carry["site"], times=self.evaluated[b])
            else:
                self.v("C17/no-repeat-eval-unexplained", u=u, site=(carry or {}).get("site"), times=self.evaluated[b],
                       phase=ev["phase"] if ev else None)
        if record and self.evaluated[b] > 1 and self.fl.he_noise_flag:
            self.flags.add("duplicate-merge")
            self.c("duplicate_merges")
        # value history per row (C15)
        if idx is not None and record:
            y = float(fl.Y[idx, 0])
            s = float(fl.S[idx, 0]) if fl.noise_flag else None
            self.row_hist.setdefault(int(idx), []).append((y, s))
        # C01 internal clause
        if "C01" in self.want and record and idx is not None:
            vt = fl.variable_transformer
            xi = fl.X[idx]
            self.c("C01.logged_rows")
            if not (np.all(xi >= vt.lb.ravel()) and np.all(xi <= vt.ub.ravel())):
                self.v("C01/logged-outside-transformed-box", idx=int(idx), u=xi, lb=vt.lb, ub=vt.ub)
            back = vt.inverse_transf(xi.reshape(1, -1))[0]
            if not np.array_equal(back, fl.X_orig[idx]):
                self.v("C01/logged-pair-mismatch", idx=int(idx), u=xi, x_logged=fl.X_orig[idx], x_back=back)
        # C12 passive model
        if self.model is not None and ev is not None and "y" in ev:
            vt = fl.variable_transformer
            self.model.observe(ev["x"], u, ev["y"], ev["s"], record=record)
            self.c("C12.passive_ops")
            if "C12" in self.want and (len(self.calls) % 16 == 0):
                self._compare_model(fl, "during")

    def _compare_model(self, fl, when):
        mm = self.model.compare(fl)
        self.c("C12.passive_compares")
        if mm:
            self.v("C12/log-differs-from-model", when=when, mismatches=mm[:4], ncalls=len(self.calls))

    # ------------------------------------------------------- seam: filter
    def _wrap_filter(self, patch):
        import pybads.bads.bads as bb
        import pybads.search.es_search as es

        mon = self
        orig = bb.contraints_check

        def make(site_ns):
            def cc(U, lb, ub, tol_mesh, function_logger, proj=True, non_box_cons=None, *xa, **xkw):
                Uin = np.atleast_2d(np.array(U, float, copy=True))
                scripted = None
                if mon.filter_script is not None and function_logger is mon.fl:
                    scripted = mon._filter_script_decision(site_ns)
                out = orig(U, lb, ub, tol_mesh, function_logger, proj, non_box_cons, *xa, **xkw)
                if scripted is not None:
                    out = mon._apply_filter_script(out, scripted)
                if function_logger is mon.fl:
                    mon._after_filter(site_ns, Uin, np.asarray(lb, float), np.asarray(ub, float), tol_mesh, function_logger, proj,
                                      non_box_cons, out, scripted is not None)
                return out

            return cc

        patch.set(bb, "contraints_check", make("bads"))
        patch.set(es, "contraints_check", make("es"))

    def _filter_site(self, ns):
        if ns == "es":
            return "es"
        if self.cur_poll is not None:
            return "poll"
        if self.cur_search is not None:
            return "search"
        if self.phase == "init":
            return "init"
        return "other"

    def _filter_script_decision(self, ns):
        site = self._filter_site(ns)
        fs = self.filter_script
        if site not in fs.get("sites", ("search", "poll", "es")):
            return None
        i = fs.setdefault("_i", 0)
        fs["_i"] = i + 1
        pat = fs["pattern"]
        return pat[i % len(pat)]

    def _apply_filter_script(self, out, keep):
        # keep: number of rows to keep (int) or None = untouched
        if keep is None:
            return out
        self.c("C03.filter_injections")
        return out[: int(keep)]

    @safe
    def _after_filter(self, ns, Uin, lb, ub, tol_mesh, fl, proj, cons, out, scripted):
        site = self._filter_site(ns)
        self.filters += 1
        self.c("filter_calls." + site)
        out = np.asarray(out)
        nin, nout = Uin.shape[0], out.shape[0]
        if self.cur_es is not None and ns == "es":
            self.cur_es["gen_in"].append(nin)
            self.cur_es["gen_out"].append(nout)
            if nout == 0:
                self.flags.add("empty-es-generation")
        if site == "search" and nout == 0:
            self.flags.add("empty-search-set")
        lbr, ubr = lb.ravel(), ub.ravel()
        clamped = np.maximum(np.minimum(Uin, ubr), lbr) if proj else Uin
        n_oob = int(np.sum(np.any(Uin > ubr, axis=1) | np.any(Uin < lbr, axis=1))) if nin else 0
        if n_oob:
            self.flags.add("filter-oob-input")
            self.c("filter_rows_oob", n_oob)
        tol = tol_mesh / 2.0
        nlog = fl.X_max_idx + 1
        logged = fl.X[:nlog]
        logged_keys = set(map(_bits, np.round(logged / tol))) if nlog else set()
        logged_bits = set(map(_bits, logged)) if nlog else set()
        want17 = "C17" in self.want
        if want17:
            self.c("C17.filter_calls")
            self.c("C17.filter_rows_out", nout)
        if nout:
            if "C01" in self.want or want17:
                if not (np.all(out >= lbr) and np.all(out <= ubr)):
                    bad = out[~(np.all(out >= lbr, axis=1) & np.all(out <= ubr, axis=1))][0]
                    self.v(("C17" if want17 else "C01") + "/filter-output-outside-box", site=site, row=bad, lb=lbr, ub=ubr, proj=proj)
            if (want17 or "C02" in self.want) and cons is not None:
                X = fl.variable_transformer.inverse_transf(out)
                C = np.asarray(self.P.cons(X)).ravel()
                self.c("C02.filter_rows_checked", nout)
                if np.any(C > 0):
                    self.v(("C17" if want17 else "C02") + "/filter-output-infeasible", site=site, row=out[np.argmax(C > 0)], cons=C[np.argmax(C > 0)])
            if want17:
                uq = np.unique(out, axis=0)
                if uq.shape[0] != nout:
                    self.v("C17/filter-output-duplicates", site=site, nout=nout, distinct=int(uq.shape[0]))
                okeys = [_bits(r) for r in np.round(out / tol)]
                stale = [i for i, kk in enumerate(okeys) if kk in logged_keys]
                if stale:
                    self.c("C17.fresh_violations", len(stale))
                    self.v("C17/fresh-not-filtered", site=site, row=out[stale[0]], n_stale=len(stale), nout=nout)
                # subset
                src = set(_bits(r) for r in clamped)
                notsub = [i for i in range(nout) if _bits(out[i]) not in src]
                if notsub and not scripted:
                    self.v("C17/filter-output-not-subset", site=site, row=out[notsub[0]], proj=proj)
        if want17 and nin:
            # kinds present in the input (non-triviality) + completeness (recorded, not judged)
            inkeys = [_bits(r) for r in np.round(clamped / tol)]
            n_stale_in = sum(1 for kk in inkeys if kk in logged_keys)
            n_dup_in = nin - len(set(_bits(r) for r in clamped))
            if n_stale_in:
                self.c("C17.in_rows_already_evaluated", n_stale_in)
            if n_dup_in:
                self.c("C17.in_rows_duplicate", n_dup_in)
            if n_oob:
                self.c("C17.in_rows_oob", n_oob)
            if cons is not None and nout < nin:
                self.c("C17.in_rows_maybe_infeasible", nin - nout)
        if nin > nout and cons is not None:
            self.c("cons_rejections." + site, nin - nout)
            self.flags.add("cons-rejected@" + site)
        # remember which filter output carried each row (for repeat-eval attribution)
        if site in ("init", "search", "poll"):
            for r in np.ascontiguousarray(out):
                bb_ = _bits(r)
                self.last_filter_carry[bb_] = {"site": site, "was_logged": bb_ in logged_bits}

    # ------------------------------------------------------ seam: BADS methods
    def _wrap_bads(self, patch):
        import pybads.bads.bads as bb

        B = bb.BADS
        mon = self

        o_init = B._init_mesh_

        def init_mesh(b):
            if b is not mon.bads:
                return o_init(b)
            mon.phase = "init"
            try:
                return o_init(b)
            finally:
                mon.phase = "loop"
                mon.n_at_loop_start = len(mon.calls)

        patch.set(B, "_init_mesh_", init_mesh)

        o_poll = B._poll_step_

        def poll(b, gp):
            if b is not mon.bads:
                return o_poll(b, gp)
            st = mon._poll_enter(b)
            try:
                out = o_poll(b, gp)
            except BaseException:
                mon.cur_poll = None
                raise
            mon._poll_exit(b, st)
            return out

        patch.set(B, "_poll_step_", poll)

        o_search = B._search_step_

        def search(b, gp):
            if b is not mon.bads:
                return o_search(b, gp)
            st = {"id": len(mon.searches), "evals": [], "es": [], "count0": b.optim_state["search_count"],
                  "k0": int(b.mesh_size_integer)}
            mon.cur_search = st
            try:
                out = o_search(b, gp)
            finally:
                mon.cur_search = None
            mon.searches.append({"id": st["id"], "nevals": len(st["evals"])})
            mon.c("search_steps")
            if "C18" in mon.want:
                mon.c("C18.search_steps")
                if len(st["evals"]) > 1:
                    mon.v("C18/search-step-multiple-evals", n=len(st["evals"]))
            if "C03" in mon.want and b.optim_state["search_count"] != st["count0"] + 1:
                # implementation-level bookkeeping (where the attempt counter is advanced): counted only;
                # the property-level consequence (non-progress) is what the loop probe judges
                mon.c("C03.search_count_not_advanced_inside_search_step")
            if "C13" in mon.want and int(b.mesh_size_integer) != st["k0"]:
                mon.v("C13/mesh-changed-in-search", before=st["k0"], after=int(b.mesh_size_integer))
            return out

        patch.set(B, "_search_step_", search)

        o_upd = B._update_incumbent_

        def upd(b, *a, **k):
            if b is mon.bads:
                mon.n_incumbent_updates += 1
            return o_upd(b, *a, **k)

        patch.set(B, "_update_incumbent_", upd)

        o_imp = B._eval_improvement_

        def imp(b, f_base, f_new, s_base, s_new, q):
            z = o_imp(b, f_base, f_new, s_base, s_new, q)
            if b is mon.bads and mon.cur_poll is not None:
                mon.cur_poll["imps"].append((len(mon.cur_poll["evals"]), copy.copy(z), f_base, f_new))
                mon.cur_poll["imp_args"].append((len(mon.cur_poll["evals"]), f_new, s_new))
            if b is mon.bads and mon.cur_poll is None and mon.cur_search is None and np.ndim(f_new) == 0:
                # loop-body call with scalar arguments = the historic (stall) improvement;
                # the re-estimation call that follows it in noisy modes passes arrays
                mon.last_loop_imp = z
            return z

        patch.set(B, "_eval_improvement_", imp)

        o_pm = bb.poll_mads_2n

        def pm(dim_x, poll_scale, search_mesh_size, mesh_size, *xa, **xkw):
            # (extra arguments a changed tree may pass are handed through untouched: the seam observes, it does not constrain)
            Bm = o_pm(dim_x, poll_scale, search_mesh_size, mesh_size, *xa, **xkw)
            if mon.cur_poll is not None:
                mon.cur_poll["gens"].append({"B": np.array(Bm, copy=True), "poll_scale": np.array(poll_scale, float, copy=True),
                                             "sms": float(search_mesh_size), "ms": float(mesh_size)})
            return Bm

        patch.set(bb, "poll_mads_2n", pm)

        # the loop probe (guarded source hook)
        def probe(tag, b, info):
            if b is not mon.bads:
                return
            if tag == "loop_end":
                mon._loop_end(b, info)
            elif tag == "loop_exit":
                mon.after_loop = True
                mon.phase = "final"

        patch.set(bb, "_verif_probe", probe)

    # ---- poll
    def _poll_enter(self, b):
        o = b.options
        st = {
            "id": len(self.polls), "evals": [], "imps": [], "gens": [], "adds": [], "imp_args": [],
            "k0": int(b.mesh_size_integer), "u0": np.array(b.u, float, copy=True).ravel(),
            "fval0": b.fval, "fsd0": b.fsd, "yval0": b.yval, "iter": int(b.optim_state["iter"]),
            "suff": float(np.asarray(b.sufficient_improvement)), "mesh": float(b.optim_state["mesh_size"]),
            "sms": float(b.optim_state["search_mesh_size"]), "fc0": int(b.function_logger.func_count),
        }
        self.cur_poll = st
        if "C13" in self.want:
            self.c("C13.poll_entries")
            k0 = st["k0"]
            if st["mesh"] != float(o["poll_mesh_multiplier"]) ** k0 or float(o["poll_mesh_multiplier"]) != 2.0:
                self.v("C13/mesh-not-power-of-two", mesh=st["mesh"], k=k0)
            if k0 > o["max_poll_grid_number"]:
                self.v("C13/mesh-above-cap", k=k0, cap=o["max_poll_grid_number"])
            if st["sms"] > st["mesh"]:
                self.v("C13/search-mesh-exceeds-poll-mesh", sms=st["sms"], mesh=st["mesh"], where="poll-entry")
        return st

    @safe
    def _poll_exit(self, b, st):
        self.cur_poll = None
        o = b.options
        D = b.D
        k0 = st["k0"]
        k1 = int(b.mesh_size_integer)
        det = b.optim_state["uncertainty_handling_level"] == 0
        ne = len(st["evals"])
        rec = {"id": st["id"], "k0": k0, "k1": k1, "nevals": ne, "iter": st["iter"]}
        self.polls.append(rec)
        self.c("poll_steps")
        # ----- improvements paired with evaluations
        imps = []
        for (n_ev, z, f_base, f_new) in st["imps"]:
            imps.append((n_ev, float(np.asarray(z).ravel()[0])))
        per_eval = [z for (n_ev, z) in imps[:ne]]
        extra = imps[ne:]
        pairing_ok = len(imps) >= ne and all(imps[i][0] == i + 1 for i in range(ne))
        if "C13" in self.want:
            if not pairing_ok:
                self.c("C13.pairing_failed")
            else:
                if det and not o["stobads"]:
                    ind = [float(st["fval0"]) - ev["y"] for ev in st["evals"] if "y" in ev]
                    if len(ind) == ne:
                        if any(a != z_ for a, z_ in zip(ind, per_eval)):
                            self.c("C13.indep_imp_differs")
                        per_eval = ind
                        rec["indep"] = True
                suff_doc = max(float(o["tol_improvement"]) * (2.0 ** k0) ** float(o["forcing_exponent"]), float(o["tol_fun"])) if o["sloppy_improvement"] else float(o["tol_improvement"]) * (2.0 ** k0) ** float(o["forcing_exponent"])
                if abs(suff_doc - st["suff"]) > 1e-15 * max(1.0, suff_doc):
                    self.v("C13/forcing-function-differs", used=st["suff"], documented=suff_doc, k=k0)
                best = max(per_eval) if per_eval else 0.0
                success = best > suff_doc
                cap = int(o["max_poll_grid_number"])
                self.c("C13.polls_judged")
                if success:
                    exp = [min(k0 + 1, cap)]
                    self.c("C13.success_at_cap" if k0 + 1 > cap else "C13.doubling")
                else:
                    exp = [k0 - 1]
                    if o["accelerate_mesh"] and st["iter"] > o["accelerate_mesh_steps"]:
                        # historic improvement, recomputed
                        hist = None
                        if det or float(o["improvement_quantile"]) == 0.5:
                            # with the default quantile 0.5 the documented improvement is f_base - f_incumbent
                            # (the SD term vanishes): recomputed from the history record and the incumbent estimate
                            # BADS holds now, in deterministic AND noisy modes
                            try:
                                fb = float(b.iteration_history.get("fval")[st["iter"] - int(o["accelerate_mesh_steps"])])
                                hist = fb - float(b.fval)
                            except Exception:
                                hist = None
                        if hist is None and extra:
                            hist = extra[-1][1]
                        if extra and not math.isfinite(extra[-1][1]):
                            hist = None  # non-finite SDs make the documented improvement undefined: either outcome accepted
                        if hist is None:
                            exp = [k0 - 1, k0 - 2]
                        elif hist < float(o["tol_fun"]):
                            exp = [k0 - 2]
                if k1 not in exp:
                    self.v("C13/wrong-mesh-update", k_before=k0, k_after=k1, expected=exp, success=success, best_improvement=best,
                           sufficient=suff_doc, nevals=ne, det=det, iter=st["iter"])
                else:
                    if not success:
                        self.c("C13.halving" if k1 == k0 - 1 else "C13.quartering")
                if b.mesh_size != 2.0 ** k1 or b.optim_state["mesh_size"] != 2.0 ** k1:
                    self.v("C13/mesh-not-power-of-two", mesh=b.mesh_size, k=k1, where="poll-exit")
                if k1 > cap:
                    self.v("C13/mesh-above-cap", k=k1, cap=cap)
        # ----- noisy modes: success must be judged on the GP ESTIMATE at the polled point, not on the raw observation
        if "C13" in self.want and not det and not o["stobads"] and pairing_ok and ne:
            adds = {n_ev: (m_, s_) for (n_ev, m_, s_) in st["adds"]}
            for j in range(ne):
                n_ev, f_new, s_new = st["imp_args"][j]
                self.c("C13.noisy_poll_evals_checked")
                if (j + 1) not in adds:
                    y_raw = st["evals"][j].get("y")
                    try:
                        fn0, sn0 = float(np.asarray(f_new).ravel()[0]), float(np.asarray(s_new).ravel()[0])
                    except Exception:
                        fn0, sn0 = None, None
                    if y_raw is not None and fn0 == y_raw and sn0 == 0.0:
                        # direct evidence: the value fed to the success test IS the raw observation, with zero SD
                        self.v("C13/noisy-poll-not-judged-on-gp-estimate", used_value=fn0, used_sd=sn0, raw_observation=y_raw, equals_raw=True,
                               gp_update_observed=False)
                    else:
                        self.struct("noisy-poll-evaluation-without-observed-gp-update")
                    continue
                m_, s_ = adds[j + 1]
                try:
                    fn, sn = float(np.asarray(f_new).ravel()[0]), float(np.asarray(s_new).ravel()[0])
                except Exception:
                    continue
                if not (abs(fn - m_) <= 1e-9 * max(1.0, abs(m_)) and abs(sn - s_) <= 1e-9 * max(1.0, abs(s_))):
                    y_raw = st["evals"][j].get("y")
                    self.v("C13/noisy-poll-not-judged-on-gp-estimate", used_value=fn, used_sd=sn, gp_mean=m_, gp_sd=s_, raw_observation=y_raw,
                           equals_raw=bool(y_raw is not None and fn == y_raw))
        # ----- C14 (b): polled points vs generated directions
        if "C14" in self.want:
            self.c("C14.poll_steps")
            if ne > 2 * D:
                self.v("C14/more-than-2D-polled", n=ne, D=D)
            if len(st["gens"]) > 1:
                self.c("C14.multiple_generations")
            if ne and not st["gens"]:
                self.struct("poll-evaluations-without-observed-direction-generator-call", n=ne)
            if st["gens"]:
                g = st["gens"][0]
                Dm = g["B"] * g["poll_scale"]
                Dint = np.round(Dm)
                n_max = max(1.0, round(g["sms"] / g["ms"]))
                self.c("C14.generated_sets")
                ok_shape = Dm.shape == (2 * D, D)
                if not ok_shape:
                    self.v("C14/direction-set-shape", shape=list(Dm.shape), D=D)
                else:
                    if np.max(np.abs(Dm - Dint)) > 1e-9:
                        self.v("C14/directions-not-integer", dev=float(np.max(np.abs(Dm - Dint))))
                    top, bot = Dint[:D], Dint[D:]
                    if not np.array_equal(bot, -top):
                        self.v("C14/not-plus-minus-pairs", top=top, bottom=bot)
                    if abs(np.linalg.det(top)) < 0.5:
                        self.v("C14/singular-direction-matrix", top=top)
                    if np.max(np.abs(Dint)) > n_max:
                        self.v("C14/entry-exceeds-mesh-ratio", max_entry=float(np.max(np.abs(Dint))), n_max=n_max)
                    if n_max == 1:
                        want_rows = sorted([tuple(r) for r in np.vstack([np.eye(D), -np.eye(D)]).tolist()])
                        got_rows = sorted([tuple(r) for r in (Dint + 0.0).tolist()])
                        if want_rows != got_rows:
                            self.v("C14/not-signed-unit-vectors", rows=Dint)
                    tol = 1e-9
                    if o["force_poll_mesh"]:
                        tol = st["sms"] / 2.0 + 1e-9
                    used = set()
                    for ev in st["evals"]:
                        u = ev.get("u")
                        if u is None:
                            continue
                        self.c("C14.poll_evals")
                        cand = st["u0"] + st["mesh"] * Dint
                        dist = np.max(np.abs(cand - u), axis=1)
                        j = int(np.argmin(dist))
                        if dist[j] > tol * max(1.0, float(np.max(np.abs(u)))):
                            self.v("C14/polled-point-off-direction-set", u=u, incumbent=st["u0"], mesh=st["mesh"], nearest=cand[j], dist=float(dist[j]))
                        elif j in used and not o["force_poll_mesh"]:
                            self.v("C14/direction-polled-twice", u=u, direction=Dint[j])
                        used.add(j)
                    if ne >= 2:
                        self.c("C14.steps_with_2plus_evals")

    # ---- loop probe
    @safe
    def _loop_end(self, b, info):
        o = b.options
        k = int(b.mesh_size_integer)
        ncalls = len(self.calls)
        st = {"i": info["loop_iter"], "pi": info["poll_iteration"], "poll": bool(info["do_poll_step"]),
              "search": bool(info["do_search_step"]), "fin": bool(info["is_finished"]), "k": k, "n": ncalls,
              "sc": int(b.optim_state["search_count"])}
        prev = self.loops[-1] if self.loops else None
        self.loops.append(st)
        self.c("loop_iters")
        n_prev = prev["n"] if prev else self.n_at_loop_start
        k_prev = prev["k"] if prev else int(o["init_mesh_size_integer"])
        sc_prev = prev["sc"] if prev else None
        evaluated = ncalls > (n_prev or 0)
        if "C03" in self.want:
            self.c("C03.loop_iters")
            progressed = evaluated or k < k_prev or (sc_prev is not None and st["sc"] != sc_prev) or st["poll"] or st["fin"]
            # rule 1: every iteration evaluates, shrinks the mesh, or advances the search counter
            if not (evaluated or k < k_prev or (sc_prev is None or st["sc"] != sc_prev)):
                self.v("C03/iteration-without-progress", loop_iter=st["i"], k=k, k_prev=k_prev, search_count=st["sc"], ncalls=ncalls)
            if evaluated:
                self.consec_noeval = 0
            else:
                self.consec_noeval += 1
                self.max_consec_noeval = max(self.max_consec_noeval, self.consec_noeval)
            snt = float(o["search_n_try"])
            k_tol = math.ceil(math.log2(float(o["tol_mesh"]))) if o["tol_mesh"] > 0 else -1074
            bound2 = (snt + 1) * (max(int(o["init_mesh_size_integer"]), 0) - k_tol + 2) + 4
            bound3 = (snt + 1) * (ncalls + float(min(o["max_iter"], 10**7)) + 64)
            if self.consec_noeval > bound2:
                self.v("C03/non-progress-run", consecutive_non_evaluating_iterations=self.consec_noeval, bound=bound2, tail=self.loops[-6:])
                raise NonProgress(f"{self.consec_noeval} consecutive iterations without a target evaluation")
            if st["i"] + 1 > bound3:
                self.v("C03/too-many-loop-iterations", loop_iters=st["i"] + 1, bound=bound3)
                raise NonProgress("loop iteration bound exceeded")
            if ncalls > self.budget_user and self.budget_applicable is not False and self.n_at_loop_start is not None and self.n_at_loop_start <= self.budget_user:
                self.v("C03/budget-exceeded-in-loop", calls=ncalls, budget=self.budget_user)
                raise NonProgress("budget exceeded")
        if "C13" in self.want:
            self.c("C13.loop_ends")
            if not st["poll"] and k != k_prev and o["search_mesh_expand"] == 0:
                self.v("C13/mesh-changed-outside-poll", loop_iter=st["i"], k_prev=k_prev, k=k)
            if st["poll"] and self.polls and self.polls[-1]["k1"] != k:
                self.v("C13/mesh-changed-after-poll", k_at_poll_exit=self.polls[-1]["k1"], k=k)
            if b.optim_state["search_mesh_size"] > b.optim_state["mesh_size"]:
                self.v("C13/search-mesh-exceeds-poll-mesh", sms=b.optim_state["search_mesh_size"], mesh=b.optim_state["mesh_size"], where="loop-end")
        # measured: the incumbent point changed in this iteration WITHOUT an incumbent update, i.e. the
        # noisy-history re-estimation swapped it for an earlier iterate
        u_now = np.array(b.u, float, copy=True).ravel()
        if self._prev_loop_u is not None and not np.array_equal(u_now, self._prev_loop_u) and self.n_incumbent_updates == self._prev_loop_upd:
            self.flags.add("incumbent-swapped-to-earlier-iterate")
            self.c("incumbent_swaps")
        self._prev_loop_u = u_now
        self._prev_loop_upd = self.n_incumbent_updates
        if "C19" in self.want:
            self.c("C19.loop_ends")
            self._check_incumbent_tuple(b, "loop_end", st["i"])

    def _obs_at(self, xbits):
        return [e for e in self.calls if "y" in e and _bits(e["x"]) == xbits]

    def _check_incumbent_tuple(self, b, where, i):
        vt = b.var_transf
        u = np.asarray(b.u, float).ravel()
        ub_ = np.asarray(b.u_best, float).ravel()
        if not np.array_equal(u, ub_):
            self.v("C19/incumbent-u-differs-from-u_best", where=where, loop_iter=i, u=u, u_best=ub_)
            return
        x = vt.inverse_transf(u.reshape(1, -1))[0]
        obs = self._obs_at(_bits(x))
        if not obs:
            self.v("C19/incumbent-point-never-evaluated", where=where, loop_iter=i, x=x)
            return
        yv = float(np.asarray(b.yval).ravel()[0])
        if not self._value_observed_at(obs, yv):
            self.v("C19/incumbent-value-not-observed-at-incumbent-point", where=where, loop_iter=i, x=x, yval=yv,
                   observed=[e["y"] for e in obs][:6])

    def _value_observed_at(self, obs, yv):
        ys = [e["y"] for e in obs]
        rets = [e.get("ret_fval") for e in obs if e.get("ret_fval") is not None]
        if yv in ys or yv in rets:
            return True
        if self.P.mode == "he":
            lo, hi = min(ys), max(ys)
            return lo - 1e-12 * max(1, abs(lo)) <= yv <= hi + 1e-12 * max(1, abs(hi))
        return False

    # ------------------------------------------------------- seam: ES / hedge
    def _wrap_search(self, patch):
        import pybads.search.es_search as es
        import pybads.search.search_hedge as sh
        import pybads.bads.bads as bb

        mon = self
        o_call = es.ESSearch.__call__

        def es_call(s, u, lb, ub, func_logger, gp, optim_state, sum_rule=True, non_box_cons=None, *xa, **xkw):
            if func_logger is not mon.fl:
                return o_call(s, u, lb, ub, func_logger, gp, optim_state, sum_rule, non_box_cons, *xa, **xkw)
            st = {"acq": [], "gen_in": [], "gen_out": [], "lbs": np.array(optim_state["lb_search"], float).ravel(),
                  "ubs": np.array(optim_state["ub_search"], float).ravel(), "sms": float(optim_state["search_mesh_size"]),
                  "cls": type(s).__name__}
            mon.cur_es = st
            try:
                out = o_call(s, u, lb, ub, func_logger, gp, optim_state, sum_rule, non_box_cons, *xa, **xkw)
            finally:
                mon.cur_es = None
            mon._es_exit(st, out)
            return out

        patch.set(es.ESSearch, "__call__", es_call)

        o_acq_es = es.acq_fcn_lcb

        def acq_es(xi, func_count, gp, sqrt_beta=None):
            out = mon._acq_call("es", o_acq_es, xi, func_count, gp, sqrt_beta)
            if mon.cur_es is not None:
                mon.cur_es["acq"].append((np.array(xi, float, copy=True), np.array(out[0], float, copy=True).ravel()))
            return out

        patch.set(es, "acq_fcn_lcb", acq_es)

        o_acq_b = bb.acq_fcn_lcb

        def acq_b(xi, func_count, gp, sqrt_beta=None):
            return mon._acq_call("bads", o_acq_b, xi, func_count, gp, sqrt_beta)

        patch.set(bb, "acq_fcn_lcb", acq_b)

        o_h = sh.ESSearchHedge.__call__

        def hedge_call(h, u, lb, ub, func_logger, gp, optim_state, *xa, **xkw):
            out = o_h(h, u, lb, ub, func_logger, gp, optim_state, *xa, **xkw)
            if func_logger is mon.fl and "C18" in mon.want:
                mon.c("C18.hedge_calls")
                p = np.asarray(h.prob, float)
                ch = int(np.asarray(h.chosen_hedge).ravel()[0])
                if not (np.all(np.isfinite(p)) and abs(np.sum(p) - 1.0) <= 1e-12 and np.all(p >= h.gamma - 1e-15)):
                    mon.v("C18/hedge-probabilities-improper", prob=p, gamma=h.gamma, g=h.g)
                if not (0 <= ch < h.n_funs):
                    mon.v("C18/hedge-choice-invalid", chosen=ch)
                mon.c("C18.hedge_choice_%d" % ch)
            return out

        patch.set(sh.ESSearchHedge, "__call__", hedge_call)

    @safe
    def _es_exit(self, st, out):
        if "C18" not in self.want:
            return
        self.c("C18.es_calls")
        us, z = out
        allu = [a for a, _ in st["acq"]]
        allz = [zz for _, zz in st["acq"]]
        if not allu:
            # no acquisition evaluation observed.  If the FILTER seam was observed in this call and let nothing through, the
            # search has no surviving candidate: it must report an empty search set (the statement's "nothing is evaluated
            # when nothing feasible is nearby"); a returned point cannot be one of the survivors.  Otherwise the seam moved.
            if st["gen_out"] and sum(st["gen_out"]) == 0:
                self.c("C18.es_calls_without_survivors")
                if np.asarray(us).size != 0 and np.asarray(z).size != 0:
                    self.v("C18/es-returned-point-without-candidates", returned=us, cls=st["cls"], filter_calls=len(st["gen_out"]), acquisition_evaluations=0)
                return
            self.struct("es-call-without-observed-acquisition-evaluation", cls=st["cls"])
            return
        U = np.vstack(allu)
        Z = np.concatenate(allz)
        self.c("C18.es_candidates", int(U.shape[0]))
        self.c("C18.es_generations", len(allu))
        if len(allu) >= 2 and U.shape[0]:
            zmin_first = np.nanmin(allz[0]) if allz[0].size else np.inf
            if allz[-1].size and np.nanmin(np.concatenate(allz[1:])) < zmin_first:
                self.c("C18.winner_from_later_generation")
                self.flags.add("es-winner-2nd-gen")
        if st["gen_in"] and st["gen_out"] and sum(st["gen_out"]) < 0.1 * sum(st["gen_in"]):
            self.flags.add("es-population-shrunk")
            self.c("C18.es_population_shrunk")
        if np.asarray(us).size == 0 or np.asarray(z).size == 0:
            self.c("C18.es_returned_empty")
            if U.shape[0] != 0:
                self.v("C18/es-returned-empty-although-candidates-survived", ncand=int(U.shape[0]), cls=st["cls"])
            return
        if U.shape[0] == 0:
            self.v("C18/es-returned-point-without-candidates", returned=us, cls=st["cls"])
            return
        zret = float(np.asarray(z).ravel()[0])
        zmin = float(np.nanmin(Z)) if np.any(~np.isnan(Z)) else float("nan")
        if not (zret == zmin or (math.isnan(zret) and math.isnan(zmin))):
            self.v("C18/es-returned-not-acquisition-minimum", returned_z=zret, min_z=zmin, ncand=int(U.shape[0]), cls=st["cls"])
        else:
            rows = np.where(Z == zmin)[0] if not math.isnan(zmin) else []
            if len(rows) and not any(np.array_equal(U[r], np.asarray(us).ravel()) for r in rows):
                self.v("C18/es-returned-point-not-argmin", returned=us, argmin=U[rows[0]])
        if not (np.all(U >= st["lbs"]) and np.all(U <= st["ubs"])):
            bad = U[~(np.all(U >= st["lbs"], axis=1) & np.all(U <= st["ubs"], axis=1))][0]
            self.v("C18/es-candidate-outside-search-box", row=bad, lb=st["lbs"], ub=st["ubs"])
        q = U / st["sms"]
        dev = np.max(np.abs(q - np.round(q)))
        if dev > 1e-6:
            self.v("C18/es-candidate-off-search-mesh", dev=float(dev), sms=st["sms"])

    def _acq_call(self, site, orig, xi, func_count, gp, sqrt_beta):
        """run the real acquisition function while recording the GP prediction it
        used (same gp, same inputs), then check z = mu - sqrt(beta_t) * sd with an
        independently computed beta_t."""
        if "C15" not in self.want and not ("C18" in self.want and getattr(self, "user_schedule", None) is not None):
            return orig(xi, func_count, gp, sqrt_beta)
        pref = "C15" if "C15" in self.want else "C18"  # (C18: candidates must be ranked by the CONFIGURED acquisition function)
        seen = []
        real_predict = gp.predict

        def predict(*a, **k):
            out = real_predict(*a, **k)
            seen.append((a, k, out))
            return out

        gp.predict = predict
        try:
            out = orig(xi, func_count, gp, sqrt_beta)
        finally:
            try:
                del gp.predict
            except AttributeError:
                pass
        self.c("C15.acq_calls." + site)
        xa = np.asarray(xi, float)
        n = xa.shape[0]
        if n == 0:
            return out
        if func_count != self.fl.func_count:
            self.v("C15/acq-func-count-not-current", passed=int(func_count), actual=int(self.fl.func_count), site=site)
        user_sched = getattr(self, "user_schedule", None)
        if sqrt_beta is not None and not (user_sched is not None and sqrt_beta is user_sched):
            self.c("C15.acq_custom_beta")
            return out
        if len(seen) != 1 or len(seen[0][0]) < 1 or seen[0][0][0] is not xi or len(seen[0][0]) > 1 or seen[0][1]:
            self.struct("acquisition-did-not-make-exactly-one-plain-gp.predict-call", n_predict_calls=len(seen), site=site)
            return out
        mu, s2 = seen[0][2]
        D = xa.shape[1]
        t = self.fl.func_count + 1
        sb = math.sqrt(0.2 * 2 * math.log(D * t**2 * math.pi**2 / (6 * 0.1)))
        if sqrt_beta is not None:
            # the USER's schedule (option search_acq_fcn = ('acq_LCB', schedule)): documented signature schedule(t, number of variables)
            sb = float(user_sched(t, D))
            self.c("C15.acq_user_schedule_calls")
        with np.errstate(all="ignore"):
            zexp = np.asarray(mu, float).ravel() - sb * np.sqrt(np.asarray(s2, float).ravel())
            zgot = np.asarray(out[0], float).ravel()
            self.c("C15.acq_rows_checked", int(n))
            bad = ~(np.isclose(zgot, zexp, rtol=1e-12, atol=0.0) | (np.isnan(zgot) & np.isnan(zexp)) | (zgot == zexp))
        if zgot.shape != zexp.shape or np.any(bad):
            j = int(np.argmax(bad)) if zgot.shape == zexp.shape else 0
            self.v(pref + "/acquisition-not-documented-lcb", site=site, got=zgot[j], expected=zexp[j], mu=np.asarray(mu).ravel()[j],
                   sd=float(np.sqrt(np.asarray(s2).ravel()[j])), sqrt_beta=sb, t=t, D=D)
        # loose sanity check that the recorded prediction is the gp's own (subset re-prediction)
        if n and self.rng.random() < 0.1:
            idx = np.arange(n) if n <= 8 else self.rng.choice(n, 8, replace=False)
            mu2, _ = real_predict(xa[idx])
            self.c("C15.acq_repredict_rows", len(idx))
            m1 = np.asarray(mu, float).ravel()[idx]
            with np.errstate(all="ignore"):
                ok = np.isclose(m1, np.asarray(mu2).ravel(), rtol=1e-3, atol=1e-6 * (1 + np.nanmax(np.abs(m1)))) | ~np.isfinite(m1)
            if not np.all(ok):
                self.c("C15.acq_repredict_loose_mismatch")
        return out

    # ---------------------------------------------------------- seam: GP
    def _wrap_gp(self, patch):
        import gpyreg
        import pybads.bads.gaussian_process_train as gpt
        import pybads.bads.bads as bb

        mon = self
        GP = gpyreg.GP
        o_fit = GP.fit

        def fit(g, X=None, y=None, s2=None, hyp0=None, options=None, **kw):
            i = mon.gp_fit_idx
            mon.gp_fit_idx += 1
            kind = "initial" if mon.in_init_gp else "local"
            mon.gp_fits.append({"i": i, "kind": kind, "n": None if X is None else int(np.asarray(X).shape[0]), "faulted": i in mon.gp_fault})
            mon.c("gp_fit_calls")
            if "C15" in mon.want and X is not None:
                mon._check_training_set("fit:" + kind, X, y, s2, variance=True)
            if i in mon.gp_fault:
                mon.c("C16.faults_delivered")
                mon.c("C16.faults_delivered." + kind)
                raise np.linalg.LinAlgError("injected GP fit failure #%d" % i)
            if i in mon.gp_fault_late:
                mon.in_late_fit = i
            try:
                return o_fit(g, X, y, s2, hyp0=hyp0, options=options, **kw)
            except np.linalg.LinAlgError:
                mon.flags.add("gp-fit-retried")
                mon.c("natural_gp_fit_failures")
                raise
            finally:
                mon.in_late_fit = None

        patch.set(GP, "fit", fit)

        # a fit that fails LATE: the hyper-parameter search succeeds and the final posterior factorisation at the optimum
        # fails - the GP object has by then been partly updated (its old posterior is gone)
        core_name = "_GP__core_computation"
        o_core = getattr(GP, core_name, None)
        if o_core is not None and mon.gp_fault_late:
            def core(g, hyp, compute_nlZ, compute_nlZ_grad, *a, **k):
                if mon.in_late_fit is not None and not compute_nlZ:
                    i_ = mon.in_late_fit
                    mon.in_late_fit = None
                    mon.c("C16.late_faults_delivered")
                    mon.gp_fits[-1]["faulted"] = True
                    mon.gp_fits[-1]["late"] = True
                    raise np.linalg.LinAlgError("injected late GP fit failure #%d (posterior factorisation)" % i_)
                return o_core(g, hyp, compute_nlZ, compute_nlZ_grad, *a, **k)

            patch.set(GP, core_name, core)
        elif mon.gp_fault_late:
            mon.struct("gp-core-computation-seam-missing")

        o_update = GP.update

        def update(g, *a, **k):
            # only the posterior recomputation made directly by local_gp_fitting (the one with the
            # documented 'fall back to the previous hyper-parameters' handler) is a fault point
            if sys._getframe(1).f_code.co_name == "local_gp_fitting":
                i = mon.gp_update_idx
                mon.gp_update_idx += 1
                if i in mon.gp_update_fault:
                    mon.gp_updates_faulted += 1
                    mon.c("C16.update_faults_delivered")
                    raise np.linalg.LinAlgError("injected posterior update failure #%d" % i)
            return o_update(g, *a, **k)

        patch.set(GP, "update", update)

        o_init = bb.init_and_train_gp

        def init_gp(*a, **k):
            mon.in_init_gp = True
            try:
                return o_init(*a, **k)
            finally:
                mon.in_init_gp = False

        patch.set(bb, "init_and_train_gp", init_gp)

        c15 = "C15" in self.want

        o_nb = gpt.get_grid_search_neighbors

        def nb(function_logger, u, gp, options, optim_state, *xa, **xkw):
            out = o_nb(function_logger, u, gp, options, optim_state, *xa, **xkw)
            if function_logger is mon.fl and c15:
                mon.last_neighbors = (np.array(out[0], copy=True), np.array(out[1], copy=True), None if out[2] is None else np.array(out[2], copy=True))
                mon._after_neighbors(function_logger, u, gp, options, optim_state, out)
            return out

        patch.set(gpt, "get_grid_search_neighbors", nb)

        o_loc = bb.local_gp_fitting

        def loc(gp, current_point, function_logger, options, optim_state, iteration_history, refit_flag, *xa, **xkw):
            mon.last_neighbors = None
            if function_logger is mon.fl and c15:
                mon._check_reference_point(current_point, iteration_history)
            out = o_loc(gp, current_point, function_logger, options, optim_state, iteration_history, refit_flag, *xa, **xkw)
            if function_logger is mon.fl and c15:
                g = out[0]
                mon.c("C15.local_fit_exits")
                mon._check_gp_holds_selected_set(g, refit_flag)
                if refit_flag and out[1] != -2:
                    mon._check_metric_is_gp_lengthscale(g)
                if refit_flag:
                    mon.c("C15.local_refits")
                mon._check_training_set("local_gp_fitting-exit", g.X, g.y, g.s2 if function_logger.noise_flag else None, variance=True)
            return out

        patch.set(bb, "local_gp_fitting", loc)

        o_add = bb.add_and_update_gp

        def add(function_logger, gp, x_new, y_new, sd_new=None, options=None, *xa, **xkw):
            n0 = gp.X.shape[0]
            out = o_add(function_logger, gp, x_new, y_new, sd_new, options, *xa, **xkw)
            if function_logger is mon.fl and mon.cur_poll is not None and "C13" in mon.want:
                try:
                    mu_, s2_ = out.predict(np.atleast_2d(x_new))
                    mon.cur_poll["adds"].append((len(mon.cur_poll["evals"]), float(np.asarray(mu_).ravel()[0]), float(np.sqrt(np.asarray(s2_).ravel()[0]))))
                except Exception:
                    pass
            if function_logger is mon.fl and c15:
                mon.c("C15.add_exits")
                g = out
                if g.X.shape[0] != n0 + 1:
                    mon.v("C15/add-did-not-append-one-row", before=n0, after=int(g.X.shape[0]))
                else:
                    xl = g.X[-1]
                    # the just-evaluated point
                    last = mon.calls[-1] if mon.calls else None
                    if last is None or last.get("u") is None or not np.array_equal(xl, last["u"]):
                        mon.v("C15/add-row-not-just-evaluated-point", row=xl, last_u=None if last is None else last.get("u"))
                    merged = last is not None and last.get("idx") is not None and mon.evaluated.get(_bits(last["u"]), 0) > 1 and mon.P.mode == "he"
                    if merged:
                        mon.c("C15.add_after_merge")
                        mon.flags.add("duplicate-merge")
                    mon._check_training_set("add_and_update_gp-exit", g.X[-1:], g.y[-1:],
                                            (g.s2[-1:] if (function_logger.he_noise_flag and g.s2 is not None) else None),
                                            variance=True, accept_reported_sd=last.get("s") if (last and merged) else None)
            return out

        patch.set(bb, "add_and_update_gp", add)

    @safe
    def _check_gp_holds_selected_set(self, g, refit_flag):
        """after a local fit the surrogate must be conditioned on exactly the set the
        nearest-neighbour selector returned for this call (same rows, same order)"""
        ln = self.last_neighbors
        if ln is None:
            self.struct("local-fit-without-observed-neighbour-selection")
            return
        U, Y, S = ln
        self.c("C15.local_fit_sets_compared")
        gx, gy = np.asarray(g.X), np.asarray(g.y).reshape(-1)
        if gx.shape != U.shape or not np.array_equal(gx, U):
            self.v("C15/gp-training-set-differs-from-selected-neighbours", gp_rows=int(gx.shape[0]), selected_rows=int(U.shape[0]), refit=bool(refit_flag),
                   n_logged=int(self.fl.X_max_idx + 1))
            return
        yy = Y.reshape(-1)
        fin = np.isfinite(yy)
        if gy.shape != yy.shape or not np.array_equal(gy[fin], yy[fin]):
            self.v("C15/gp-training-values-differ-from-selected-neighbours", refit=bool(refit_flag))
        if S is not None and self.fl.he_noise_flag:
            gs = None if g.s2 is None else np.asarray(g.s2).reshape(-1)
            if gs is None or gs.shape != S.reshape(-1).shape or not np.array_equal(gs, S.reshape(-1), equal_nan=True):
                self.v("C15/gp-noise-differs-from-selected-neighbours", refit=bool(refit_flag))

    @safe
    def _check_reference_point(self, current_point, iteration_history):
        """the local surrogate is built around the current incumbent (or, for the noisy re-estimations, around the
        point just evaluated / a recorded iterate) - never around an arbitrary point"""
        b = self.bads
        if b is None:
            return
        cp = np.asarray(current_point, float).ravel()
        self.c("C15.reference_points_checked")
        cands = [np.asarray(b.u, float).ravel()]
        if hasattr(b, "u_best"):
            cands.append(np.asarray(b.u_best, float).ravel())
        if self.calls and self.calls[-1].get("u") is not None:
            cands.append(self.calls[-1]["u"])
        if any(c.shape == cp.shape and np.array_equal(c, cp) for c in cands):
            return
        us = iteration_history.get("u")
        if us is not None and any(x is not None and np.array_equal(np.asarray(x, float).ravel(), cp) for x in us):
            self.c("C15.reference_point_is_history_iterate")
            return
        self.v("C15/local-fit-reference-point-is-not-incumbent-or-recorded-iterate", reference=cp, incumbent=cands[0])

    @safe
    def _check_metric_is_gp_lengthscale(self, g):
        """after a successful hyper-parameter refit the metric used by the next neighbour selections
        (temporary_data['len_scale']) must be the GP's OWN fitted length scales"""
        hyp = g.get_hyperparameters()
        if len(hyp) != 1 or "covariance_log_lengthscale" not in hyp[0]:
            return
        ls = np.exp(np.asarray(hyp[0]["covariance_log_lengthscale"], float)).ravel()
        if ls.size <= 1:
            return
        got = np.asarray(g.temporary_data.get("len_scale"), float).ravel()
        self.c("C15.metric_vs_gp_lengthscale_checks")
        if got.shape != ls.shape or not np.allclose(got, ls, rtol=1e-10, atol=0):
            self.v("C15/selection-metric-not-the-gp-lengthscales", metric=got, gp_lengthscales=ls)

    def _log_index(self):
        fl = self.fl
        n = fl.Xn + 1
        d = {}
        for i in range(n):
            d.setdefault(_bits(fl.X[i]), []).append(i)
        return d

    @safe
    def _check_training_set(self, where, X, y, s2, variance=True, accept_reported_sd=None):
        fl = self.fl
        X = np.asarray(X, float)
        y = np.asarray(y, float).reshape(-1)
        idxmap = self._log_index()
        he = fl.he_noise_flag
        self.c("C15.training_sets." + where.split(":")[0])
        s2a = None if s2 is None else np.asarray(s2, float).reshape(-1)
        if s2a is not None and s2a.shape[0] != X.shape[0]:
            self.v("C15/noise-vector-length-mismatch", where=where, n=int(X.shape[0]), ns2=int(s2a.shape[0]))
            s2a = None
        for r in range(X.shape[0]):
            rows = idxmap.get(_bits(X[r]))
            self.c("C15.rows_checked")
            if not rows:
                self.v("C15/training-input-not-logged", where=where, row=X[r])
                continue
            okv = False
            oks = s2a is None
            for i in rows:
                hist = self.row_hist.get(i) or [(float(fl.Y[i, 0]), float(fl.S[i, 0]) if fl.noise_flag else None)]
                cur = (float(fl.Y[i, 0]), float(fl.S[i, 0]) if fl.noise_flag else None)
                for (yy, ss) in hist + [cur]:
                    if yy == y[r]:
                        okv = True
                        if s2a is not None:
                            if ss is None or (isinstance(ss, float) and math.isnan(ss)):
                                if math.isnan(s2a[r]):
                                    oks = True
                            elif abs(s2a[r] - ss * ss) <= 1e-12 * max(ss * ss, 1e-300):
                                oks = True
                            elif accept_reported_sd is not None and abs(s2a[r] - accept_reported_sd**2) <= 1e-12 * accept_reported_sd**2:
                                oks = True
            if not okv:
                self.v("C15/training-value-not-logged-value", where=where, row=X[r], y=y[r], logged=[float(fl.Y[i, 0]) for i in rows])
            elif not oks:
                i = rows[0]
                sl = float(fl.S[i, 0]) if fl.noise_flag else None
                self.c("C15.noise_rows_wrong")
                self.v("C15/noise-not-logged-sd-squared", where=where.split(":")[0] if where.startswith("fit") else where, row=X[r], s2=s2a[r], logged_sd=sl,
                       logged_sd_squared=None if sl is None else sl * sl, equals_sd=bool(sl is not None and abs(s2a[r] - sl) <= 1e-12 * abs(sl)))
            if s2a is not None and he:
                self.c("C15.noise_rows_checked")

    @safe
    def _after_neighbors(self, fl, u, gp, options, optim_state, out):
        U, Y, S = out
        self.c("C15.neighbor_calls")
        n = fl.Xn + 1  # every logged evaluation (NOT the logger's own X_max_idx bookkeeping, which is part of what is checked)
        size = U.shape[0]
        ls = gp.temporary_data["len_scale"]
        ls_arr = np.asarray(ls, float)
        if ls_arr.ndim > 0 and ls_arr.size > 1:
            self.c("C15.neighbor_calls_ard_lengthscale")
        uu = np.asarray(u, float).reshape(1, -1)
        if uu.shape[1] != fl.X.shape[1]:
            uu = np.asarray(u, float).reshape(-1, fl.X.shape[1])
        dl = np.min(np.sum(((fl.X[:n][:, None, :] - uu[None, :, :]) / ls_arr) ** 2, axis=2), axis=1)
        dr = np.min(np.sum(((U[:, None, :] - uu[None, :, :]) / ls_arr) ** 2, axis=2), axis=1)
        nmin, nmax = int(options["n_train_min"]), int(options["n_train_max"])
        if not (min(n, nmin) <= size <= max(nmax, nmin)):
            self.v("C15/training-set-size-out-of-range", size=int(size), n_logged=int(n), n_train_min=nmin, n_train_max=nmax)
        else:
            # buffer_ntrain is documented as the MAXIMUM number of training points removed for being too far: it configures
            # a second floor, n_train_max - buffer_ntrain (when that many points are logged)
            try:
                floor2 = min(n, max(nmin, nmax - int(options["buffer_ntrain"])))
            except Exception:
                floor2 = None
            if floor2 is not None:
                self.c("C15.buffer_floor_checks")
                if floor2 > nmin:
                    self.c("C15.buffer_floor_above_n_train_min")
                if size < floor2:
                    self.v("C15/training-set-size-out-of-range", size=int(size), n_logged=int(n), n_train_min=nmin, n_train_max=nmax,
                           buffer_ntrain=int(options["buffer_ntrain"]), floor="n_train_max - buffer_ntrain")
        tol = 1e-12
        # rounding bound of a scaled squared distance recomputed from the stored coordinates: with a very short length scale,
        # two points at EQUAL true distance (mirror images about u on the mesh) differ by ~eps*|x|*|x-u|/ls^2, far above 1e-12
        # relative; the code orders by its own floating-point distances, so ties within that bound may come in either order
        eps_ = np.finfo(float).eps
        u0 = uu[0] if uu.shape[0] == 1 else np.max(np.abs(uu), axis=0)
        rb = np.sum(8 * eps_ * (np.abs(U) + np.abs(u0)) * (np.abs(U) + np.abs(u0)) / ls_arr**2, axis=1) if uu.shape[0] > 1 else \
            np.sum(8 * eps_ * (np.abs(U) + np.abs(u0)) * np.abs(U - u0) / ls_arr**2, axis=1)
        slack = tol * np.maximum(1.0, dr[1:]) + rb[1:] + rb[:-1]
        if np.any(np.diff(dr) < -slack):
            self.v("C15/neighbors-not-sorted-by-distance", dist=dr[:8])
        elif np.any(np.diff(dr) < -tol * np.maximum(1.0, dr[1:])):
            self.c("C15.neighbor_ties_within_rounding")
        want = np.sort(dl)[:size]
        if want.shape != dr.shape or not np.all(np.abs(np.sort(dr) - want) <= 1e-12 * np.abs(want) + 1e-15 + 2 * np.max(rb) * (np.abs(np.sort(dr) - want) <= 1e-6 * np.abs(want))):
            self.v("C15/neighbors-not-the-nearest", got=np.sort(dr)[:6], want=want[:6], size=int(size), n_logged=int(n))
        self._check_training_set("neighbors", U, Y, (S if (S is not None and fl.he_noise_flag) else None), variance=True)

    # ------------------------------------------------------------------- run
    def install(self):
        patch = Patch()
        self.in_init_gp = False
        self.last_loop_imp = None
        self._wrap_logger(patch)
        self._wrap_filter(patch)
        self._wrap_bads(patch)
        self._wrap_search(patch)
        self._wrap_gp(patch)
        return patch

    def run(self):
        import pybads
        from pybads import BADS

        P = self.P
        self.fl = None
        user_opts = dict(P.options)
        opts_copy = copy.deepcopy(user_opts)
        if self.spec.get("acq_schedule"):
            # a user-supplied exploration schedule for the search acquisition function (a callable cannot travel in the JSON spec)
            a_, b_ = self.spec["acq_schedule"]

            def user_schedule(t, n_vars, a_=float(a_), b_=float(b_)):
                return a_ + b_ * n_vars + 0.01 * math.log(t)

            self.user_schedule = user_schedule
            opts_copy["search_acq_fcn"] = ("acq_LCB", user_schedule)
        ssp = self.spec.get("seed_spelling")
        if ssp and isinstance(opts_copy.get("random_seed"), int):
            # another valid spelling of the same integer seed (what np.arange / rng.integers hand over)
            sv = opts_copy["random_seed"]
            opts_copy["random_seed"] = {"npint64": np.int64(sv), "npint32": np.int32(sv % (2**31 - 1)), "0d": np.array(sv), "float": float(sv)}[ssp]
            if ssp == "npint32":
                P.options["random_seed"] = int(sv % (2**31 - 1))
        args = P.bads_args(self.spec.get("arg_spelling", "2d"))
        mon = self

        # plain closures, not bound methods: OptimizeResult deep-copies the
        # target callable, and a bound method would drag the whole monitor
        # (and the BADS object) through copy.deepcopy
        def target(x):
            return mon._target(x)

        def cons(X):
            return mon._cons(X)

        if self.shared_cons is not None:
            self.shared_cons.mon = self
            cons = self.shared_cons
        if self.prelude:
            self._run_prelude(BADS, target, cons)
        patch = self.install()
        rec = {"status": None}
        self.budget_user = None
        self.budget_applicable = None
        try:
            try:
                self.phase = "pre"
                b = BADS(target, non_box_cons=(cons if P.cons is not None else None), options=opts_copy, **args, **(self.spec.get("ctor_extra") or {}))
            except Exception as e:
                self.exc = e
                rec["status"] = "ctor-exception"
                rec["exc"] = self._exc_info(e)
                if len(self.calls) > 0 and "C08" in self.want:
                    self.v("C08/target-called-during-construction", n=len(self.calls))
                return self._finish(rec)
            self.bads = b
            self.fl = b.function_logger
            if len(self.calls) > 0:
                self.v("C08/target-called-during-construction", n=len(self.calls))
            late = self.spec.get("late_options") or {}
            for k_, v_ in late.items():
                # options set on the constructed object before optimize() (the repository's own tests do this): they are
                # the user's settings for this run
                b.options[k_] = v_
                P.options[k_] = v_
            if late:
                self.c("late_options_runs")
            self.budget_user = int(b.options["max_fun_evals"])
            self.max_iter_user = b.options["max_iter"]
            self.tol_noise = float(b.options["tol_noise"])
            self.nfs_user = int(b.options["noise_final_samples"])
            self.uhl0 = int(b.optim_state["uncertainty_handling_level"])
            if "C12" in self.want:
                self.model = LoggerModel(he=(self.uhl0 == 2))
            if self.construct_only:
                rec["status"] = "constructed"
                return self._finish(rec)
            try:
                res = b.optimize()
                self.result = res
                rec["status"] = "ok"
                if self.second_run:
                    self._second_optimize(b, rec)
            except NonProgress as e:
                rec["status"] = "nonprogress"
                rec["exc"] = {"type": "NonProgress", "msg": str(e)}
            except BaseException as e:
                self.exc = e
                rec["status"] = "exception"
                rec["exc"] = self._exc_info(e)
        finally:
            patch.restore()
        return self._finish(rec)

    def _run_prelude(self, BADS, target, cons):
        """Process history of the kind a multi-start / re-scaling / pilot-run script produces: BEFORE the monitored
        instance is built, an unmonitored sibling optimisation of the same dimension runs in this process with the SAME
        target and constraint callable objects (same x-space function and region), but another plausible box (another
        internal coordinate system), another seed, a short budget and other tolerances.  Nothing of it may leak into the
        monitored run.  Failures of the prelude itself are counted, not judged."""
        P = self.P
        sp = {k: (dict(v) if isinstance(v, dict) else v) for k, v in self.spec.items()}
        rs = np.random.RandomState((int(P.options.get("random_seed") or 0) + 4242) % (2**31))
        fin = np.isfinite(P.lb) & np.isfinite(P.ub)
        ctr, half = 0.5 * (P.plb + P.pub), 0.5 * (P.pub - P.plb)
        sc = float(rs.choice([0.5, 2.0, 3.0]))
        nplb, npub = ctr - sc * half, ctr + sc * half
        marg = np.where(fin, 2e-3 * (P.ub - P.lb), 0.0)
        nplb = np.where(fin, np.maximum(nplb, P.lb + marg), nplb)
        npub = np.where(fin, np.minimum(npub, P.ub - marg), npub)
        if not np.all(npub - nplb > 1e-6 * np.maximum(1.0, np.abs(npub))):
            nplb, npub = P.plb, P.pub
        sp["plb"], sp["pub"] = nplb.tolist(), npub.tolist()
        sp["cons_frame"] = self.spec.get("cons_frame") or {"lb": self.spec["lb"], "ub": self.spec["ub"], "plb": self.spec["plb"], "pub": self.spec["pub"]}
        sp["target_frame"] = {"plb": self.spec["plb"], "pub": self.spec["pub"], "lb": self.spec["lb"], "ub": self.spec["ub"]}
        po = {k: v for k, v in P.options.items() if k in ("uncertainty_handling", "specify_target_noise", "noise_size")}
        po.update(display="off", random_seed=int(rs.randint(1, 10**6)), max_fun_evals=int(rs.choice([12, 25, 40])))
        # the pilot may DECLARE another noise policy for the same callable (a deterministic target declared noisy, an
        # auto-detected noisy one declared deterministic): per-instance policy must not reach the monitored instance
        if P.mode == "det" and rs.rand() < 0.5:
            po["uncertainty_handling"] = True
            po["noise_final_samples"] = int(rs.choice([1, 5]))
        elif P.mode in ("auto", "declared") and rs.rand() < 0.3:
            po["uncertainty_handling"] = False
        for nm, vals in (("tol_fun", [0.1, 1.0]), ("tol_mesh", [1e-2, 1e-3]), ("max_iter", [3, 6]), ("n_search", [512]), ("fun_eval_start", [4, 9])):
            if rs.rand() < 0.4:
                po[nm] = vals[int(rs.randint(len(vals)))]
        sp["options"] = po
        self.c("prelude.attempted")
        try:
            self.P_pre = gen.Problem(sp)
            self.in_prelude = True
            b0 = BADS(target, non_box_cons=(cons if P.cons is not None else None), options=dict(po), **self.P_pre.bads_args())
            if rs.rand() < 0.75:
                b0.optimize()
                self.c("prelude.ran")
            else:
                self.c("prelude.constructed_only")
            self.flags.add("prelude")
        except BaseException as e:
            self.c("prelude.failed")
            self.prelude_exc = repr(e)[:200]
        finally:
            self.in_prelude = False

    def _second_optimize(self, b, rec):
        """optimize() called again on the same object (a user continuing a run): only the boundary oracles
        (C01 box, C02 feasibility) stay armed - budget/result semantics of a continued run are not stated by
        the properties - and an internal error is reported separately for C09"""
        keep = self.want
        n0 = len(self.calls)
        self.want = self.want & {"C01", "C02"}
        self.after_loop = False
        self.phase = "second-run"
        self.cur_poll = self.cur_search = None
        try:
            b.options["max_fun_evals"] = int(b.function_logger.func_count) + 30
            b.optimize()
            rec["second_status"] = "ok"
        except NonProgress:
            rec["second_status"] = "nonprogress"
        except BaseException as e:
            rec["second_status"] = "exception"
            rec["second_exc"] = self._exc_info(e)
        finally:
            self.want = keep
            rec["second_calls"] = len(self.calls) - n0
            self.c("second_optimize_runs")

    def _exc_info(self, e):
        tb = traceback.extract_tb(e.__traceback__)
        inner = None
        inner_i = -1
        for i, fr in enumerate(tb):
            fn = fr.filename
            if "/pybads/" in fn and "/verif/" not in fn:
                inner = (os.path.basename(fn), fr.name, fr.lineno)
                inner_i = i
        # raised at/under the user's callables (our boundary code runs *below* the
        # innermost pybads frame)?
        origin_in_boundary = any(("/vlib/" in fr.filename) for fr in tb[inner_i + 1:]) if inner_i >= 0 else False
        last = tb[-1] if tb else None
        return {"type": type(e).__name__, "msg": str(e)[:300], "inner": inner, "origin_in_boundary": origin_in_boundary,
                "last": (os.path.basename(last.filename), last.name, last.lineno) if last else None}

    # -------------------------------------------------------- result oracles
    def _finish(self, rec):
        b = self.bads
        rec["ncalls"] = len(self.calls)
        rec["n_loops"] = len(self.loops)
        rec["n_polls"] = len(self.polls)
        rec["n_searches"] = len(self.searches)
        rec["n_gp_fits"] = self.gp_fit_idx
        rec["n_gp_local_updates"] = self.gp_update_idx
        rec["gp_fits"] = self.gp_fits[:60]
        rec["phases"] = [e.get("phase") for e in self.calls][:400]
        rec["max_consec_noeval"] = self.max_consec_noeval
        if b is not None and b.optim_state.get("second_fit"):
            self.flags.add("second-gp-fit")
        if any(f["kind"] == "local" for f in self.gp_fits):
            self.flags.add("local-refit")
        if b is not None and self.result is not None:
            try:
                self._judge_result(rec)
            except Exception as e:  # an oracle crash is a framework bug: make it loud, not a verdict
                rec["oracle_error"] = "".join(traceback.format_exception(type(e), e, e.__traceback__))[-1500:]
        elif b is not None and self.fl is not None and rec["status"] in ("exception", "nonprogress"):
            try:
                self._judge_log_only(rec)
            except Exception as e:
                rec["oracle_error"] = "".join(traceback.format_exception(type(e), e, e.__traceback__))[-1500:]
        if self.fault is not None:
            rec["fault"] = {k: v for k, v in self.fault.items() if k not in ("exc_obj",)}
        if self.monitor_errors and not rec.get("oracle_error"):
            rec["oracle_error"] = self.monitor_errors[0]
        if self.struct_notes:
            rec["struct_notes"] = self.struct_notes
        rec["viol"] = self.viol
        rec["viol_count"] = self.viol_count
        rec["cnt"] = self.cnt
        rec["flags"] = sorted(self.flags)
        return rec

    def _judge_log_only(self, rec):
        if "C12" in self.want and self.model is not None and self.fault is None:
            self._compare_model(self.fl, "abort")

    def _judge_result(self, rec):
        b, r, P = self.bads, self.result, self.P
        fl = self.fl
        o = b.options
        ncalls = len(self.calls)
        uhl = int(b.optim_state["uncertainty_handling_level"])
        det = uhl == 0
        rec["target_type"] = r["target_type"]
        rec["message"] = r["message"]
        rec["func_count"] = r["func_count"]
        rec["iterations"] = r["iterations"]
        rec["mesh_size"] = r["mesh_size"]
        rec["fval"] = r["fval"]
        rec["fsd"] = r["fsd"]
        rec["x"] = jsonable(r["x"])
        rec["N_init"] = self.n_at_loop_start
        xres = np.asarray(r["x"], float).ravel()
        xb = _bits(xres)
        msg = r["message"] or ""
        kind = ("budget" if "max_fun_evals" in msg else "max_iter" if "max_iter" in msg else "tol_mesh" if "tol_mesh" in msg
                else "tol_fun" if "tol_fun" in msg else "none")
        rec["stop"] = kind

        # ---------------- C01
        if "C01" in self.want:
            self.c("C01.results")
            if not (np.all(xres >= P.lb) and np.all(xres <= P.ub) and np.all(np.isfinite(xres))):
                self.v("C01/result-outside-box", x=xres, lb=P.lb, ub=P.ub)
            n = fl.Xn + 1
            vt = b.var_transf
            Xl, Xo = fl.X[:n], fl.X_orig[:n]
            self.c("C01.final_log_rows", n)
            if n:
                if not (np.all(Xl >= vt.lb.ravel()) and np.all(Xl <= vt.ub.ravel())):
                    self.v("C01/logged-outside-transformed-box", where="final")
                if not (np.all(Xo >= P.lb) and np.all(Xo <= P.ub)):
                    self.v("C01/logged-original-outside-box", where="final")
                back = vt.inverse_transf(Xl)
                if not np.array_equal(back, Xo):
                    j = int(np.argmax(np.any(back != Xo, axis=1)))
                    self.v("C01/logged-pair-mismatch", where="final", idx=j, x_logged=Xo[j], x_back=back[j])
            if np.any(P.logm):
                self.flags.add("log-coordinate")
        # ---------------- C02
        if "C02" in self.want and P.cons is not None:
            self.c("C02.results")
            cv = np.asarray(P.cons(xres[None, :])).ravel()[0]
            if cv > 0:
                self.v("C02/result-infeasible", x=xres, cons=cv)
        # ---------------- C03
        if "C03" in self.want:
            self.c("C03.results")
            budget = self.budget_user
            n_init = self.n_at_loop_start
            rec["budget"] = budget
            if r["func_count"] != ncalls:
                self.v("C03/func-count-differs-from-true-calls", reported=int(r["func_count"]), true=ncalls)
            if n_init is not None and budget >= n_init:
                self.c("C03.budget_judged")
                if ncalls > budget:
                    self.v("C03/budget-exceeded", calls=ncalls, budget=budget, N_init=n_init, mode=P.mode)
            else:
                self.c("C03.budget_precondition_not_met")
            if len(self.polls) > self.max_iter_user:
                self.v("C03/max-iter-exceeded", polls=len(self.polls), max_iter=self.max_iter_user)
            self.c("C03.stop." + kind)
            if kind == "none":
                self.v("C03/empty-or-unknown-message", message=msg)
            elif kind == "budget":
                if not (fl.func_count >= o["max_fun_evals"]):
                    self.v("C03/message-names-false-condition", message=msg, func_count=int(fl.func_count), max_fun_evals=o["max_fun_evals"])
                # independent: the loop stopped having used the whole budget minus the reserve
                reserve = (int(o["noise_final_samples"]) if uhl > 0 else 0)
                if ncalls < budget - reserve - 0 and not (uhl > 0 and ncalls >= budget - self.nfs_user):
                    self.v("C03/message-names-false-condition", message=msg, calls=ncalls, budget=budget, reserve=reserve)
            elif kind == "max_iter":
                if not (r["iterations"] >= self.max_iter_user - 1):
                    self.v("C03/message-names-false-condition", message=msg, iterations=int(r["iterations"]), max_iter=self.max_iter_user)
            elif kind == "tol_mesh":
                if not (r["mesh_size"] < o["tol_mesh"]):
                    self.v("C03/message-names-false-condition", message=msg, mesh_size=r["mesh_size"], tol_mesh=o["tol_mesh"])
            elif kind == "tol_fun":
                if self.last_loop_imp is not None:
                    z = float(np.asarray(self.last_loop_imp).ravel()[0])
                    if not (z < o["tol_fun"]):
                        self.v("C03/message-names-false-condition", message=msg, historic_improvement=z, tol_fun=o["tol_fun"])
                else:
                    self.v("C03/message-names-false-condition", message=msg, note="no historic improvement was ever computed")
            if kind == "tol_mesh" and "C13" in self.want:
                if not (r["mesh_size"] < o["tol_mesh"]):
                    self.v("C13/tol-mesh-message-but-mesh-not-below", mesh_size=r["mesh_size"], tol_mesh=o["tol_mesh"])
        elif "C13" in self.want and kind == "tol_mesh":
            self.c("C13.tol_mesh_stops")
            if not (r["mesh_size"] < o["tol_mesh"]):
                self.v("C13/tol-mesh-message-but-mesh-not-below", mesh_size=r["mesh_size"], tol_mesh=o["tol_mesh"])
        if "C13" in self.want:
            ih = b.iteration_history
            ms, sms = ih.get("mesh_size"), ih.get("search_mesh_size")
            if ms is not None and sms is not None:
                for i in range(min(len(ms), len(sms))):
                    if ms[i] is None or sms[i] is None:
                        continue
                    self.c("C13.history_records")
                    e = math.log2(ms[i])
                    if e != round(e) or ms[i] > 2.0 ** int(o["max_poll_grid_number"]):
                        self.v("C13/mesh-not-power-of-two", where="history", i=i, mesh=ms[i])
            if r["mesh_size"] != 2.0 ** int(b.mesh_size_integer):
                self.v("C13/mesh-not-power-of-two", where="result", mesh=r["mesh_size"], k=int(b.mesh_size_integer))
        # ---------------- C04
        obs_at_x = self._obs_at(xb)
        user_det = P.mode == "det" and not P.options.get("uncertainty_handling") and not P.options.get("specify_target_noise")
        if "C04" in self.want and user_det and not det:
            # a deterministic callable, nothing declared by the user: the noise test sees two identical values, so the run
            # must be handled (and reported) as deterministic - whatever this instance's options look like from inside
            self.c("C04.results")
            self.v("C04/deterministic-target-handled-as-noisy", uncertainty_handling_level=uhl, target_type=r["target_type"],
                   option_seen_by_instance=repr(b.options.get("uncertainty_handling")))
        if "C04" in self.want and det and P.mode == "det":
            self.c("C04.results")
            ys = [e["y"] for e in self.calls if "y" in e]
            if r["target_type"] != "deterministic":
                self.v("C04/target-type-not-deterministic", target_type=r["target_type"])
            if r["fsd"] != 0:
                self.v("C04/fsd-not-zero", fsd=r["fsd"])
            if not obs_at_x:
                self.v("C04/result-x-never-evaluated", x=xres)
            else:
                if not any(e["y"] == r["fval"] for e in obs_at_x):
                    self.v("C04/result-fval-not-value-at-x", fval=r["fval"], values_at_x=[e["y"] for e in obs_at_x][:4])
            if ys and min(ys) < r["fval"]:
                kbest = int(np.argmin(ys))
                self.v("C04/better-point-was-evaluated", fval=r["fval"], best=min(ys), k=kbest, phase=self.calls[kbest]["phase"], x_best=self.calls[kbest]["x"])
            fh = b.iteration_history.get("fval")
            if fh is not None:
                f = [float(t) for t in fh if t is not None]
                self.c("C04.history_records", len(f))
                for i in range(len(f) - 1):
                    if f[i + 1] > f[i]:
                        self.v("C04/incumbent-value-increased", i=i, before=f[i], after=f[i + 1])
                        break
        # ---------------- C05
        if "C05" in self.want and P.mode != "det":
            self._judge_c05(rec, obs_at_x, xres, uhl)
        # ---------------- C12 passive, final
        if "C12" in self.want and self.model is not None:
            self._compare_model(fl, "final")
        # ---------------- C19
        if "C19" in self.want:
            self._judge_c19(rec, xres, uhl)

    def _judge_c05(self, rec, obs_at_x, xres, uhl):
        b, r, P = self.bads, self.result, self.P
        o = b.options
        ncalls = len(self.calls)
        declared = P.mode in ("declared", "declared+size", "he")
        self.c("C05.results")
        # classification
        if not declared and ncalls >= 2:
            e0, e1 = self.calls[0], self.calls[1]
            if np.array_equal(e0["x"], e1["x"]) and "y" in e0 and "y" in e1:
                self.c("C05.classification_judged")
                diff = abs(e0["y"] - e1["y"])
                sto = r["target_type"].startswith("stochastic")
                # tol_noise as the USER specified it: the given value, else the documented default eps * tol_fun (the
                # user's tol_fun, else 1e-3) - not whatever the instance carries internally
                uo = P.options
                tol_doc = float(uo["tol_noise"]) if uo.get("tol_noise") is not None else float(np.spacing(1.0) * float(uo.get("tol_fun", 1e-3)))
                if tol_doc != self.tol_noise:
                    self.c("C05.instance_tol_noise_differs_from_documented")
                if (diff > tol_doc) != sto:
                    self.v("C05/noise-classification-wrong", diff=diff, tol_noise=tol_doc, tol_noise_seen_by_instance=self.tol_noise, target_type=r["target_type"])
                if sto:
                    self.c("C05.auto_detected_stochastic")
            else:
                self.v("C05/noise-test-not-at-start-point", x0=e0["x"], x1=e1["x"])
        if uhl == 0:
            return
        want_type = "stochastic (specified noise)" if P.mode == "he" else "stochastic"
        if r["target_type"] != want_type:
            self.v("C05/target-type-wrong", target_type=r["target_type"], want=want_type)
        nfs = int(o["noise_final_samples"])  # effective (after reserve logic)
        rec["nfs"] = nfs
        final_ran = self.after_loop and any(e["phase"] == "final" for e in self.calls)
        n_final = sum(1 for e in self.calls if e["phase"] == "final")
        rec["n_final"] = n_final
        if r["iterations"] is not None and r["iterations"] > 0:
            # the final selection + resampling path is active
            earlier = [e for e in self.calls if e["phase"] != "final" and "y" in e]
            if not any(np.array_equal(e["x"], xres) for e in earlier):
                self.v("C05/result-x-not-evaluated-earlier", x=xres)
            if n_final != nfs:
                self.v("C05/final-sample-count-wrong", n_final=n_final, noise_final_samples=nfs)
            tail = self.calls[ncalls - nfs:] if nfs > 0 else []
            if nfs > 0:
                self.c("C05.final_sampling_runs")
                self.flags.add("final-sampling")
                if not all(np.array_equal(e["x"], xres) for e in tail):
                    self.v("C05/final-samples-not-at-result-x", x=xres, tail_x=[e["x"] for e in tail][:3])
                yv = r["yval_vec"]
                if yv is None:
                    self.v("C05/yval-vec-missing")
                else:
                    yv = np.asarray(yv, float).ravel()
                    fresh = np.array([e["y"] for e in tail])
                    if nfs == 1:
                        ok = yv.size == 2 and yv[0] == fresh[0] and any(
                            (e["y"] == yv[1] or e.get("ret_fval") == yv[1]) for e in earlier if np.array_equal(e["x"], xres))
                        if not ok and P.mode == "he" and yv.size == 2 and yv[0] == fresh[0]:
                            ys_ = [e["y"] for e in earlier if np.array_equal(e["x"], xres)]
                            ok = bool(ys_) and min(ys_) - 1e-12 <= yv[1] <= max(ys_) + 1e-12
                        if not ok:
                            self.v("C05/yval-vec-not-fresh-plus-earlier-observation", yval_vec=yv, fresh=fresh,
                                   earlier_at_x=[e["y"] for e in earlier if np.array_equal(e["x"], xres)][:5])
                    else:
                        if not (yv.size == nfs and np.array_equal(yv, fresh)):
                            self.v("C05/yval-vec-not-the-fresh-observations", yval_vec=yv[:5], fresh=fresh[:5])
                    m = float(np.mean(yv))
                    if not abs(r["fval"] - m) <= 1e-12 * max(1.0, abs(m)):
                        self.v("C05/fval-not-mean-of-yval-vec", fval=r["fval"], mean=m)
                    n = yv.size
                    sems = [float(np.std(yv, ddof=0) / math.sqrt(n)), float(np.std(yv, ddof=1) / math.sqrt(n)) if n > 1 else 0.0]
                    if not any(abs(r["fsd"] - s) <= 1e-12 * max(1.0, abs(s)) for s in sems):
                        self.v("C05/fsd-not-standard-error", fsd=r["fsd"], sem_ddof0=sems[0], sem_ddof1=sems[1])
                if P.mode == "he":
                    sv = r["ysd_vec"]
                    if sv is None:
                        self.v("C05/ysd-vec-missing")
                    else:
                        sv = np.asarray(sv, float).ravel()
                        rep = np.array([e["s"] for e in tail])
                        self.c("C05.ysd_vec_judged")
                        if nfs == 1:
                            sds_at_x = [e["s"] for e in earlier if np.array_equal(e["x"], xres)]
                            logged = [float(self.fl.S[i, 0]) for i in range(self.fl.Xn + 1) if np.array_equal(self.fl.X_orig[i], xres)]
                            hist = [s for i in range(self.fl.Xn + 1) if np.array_equal(self.fl.X_orig[i], xres) for (_, s) in self.row_hist.get(i, [])]
                            ok = sv.size == 2 and sv[0] == rep[0] and any(abs(sv[1] - s) <= 1e-12 * abs(s) for s in sds_at_x + logged + hist)
                            if not ok:
                                self.v("C05/ysd-vec-supplement-not-an-sd-at-x", ysd_vec=sv, reported_fresh=rep, sds_at_x=(sds_at_x + logged)[:5])
                        elif not (sv.size == nfs and np.array_equal(sv, rep)):
                            self.v("C05/ysd-vec-not-the-reported-sds", ysd_vec=sv[:5], reported=rep[:5])
            else:
                self.c("C05.no_final_sampling")
            # was the returned point different from the last loop incumbent?
            if self.loops:
                pass

    def _judge_c19(self, rec, xres, uhl):
        b, r, P = self.bads, self.result, self.P
        ih = b.iteration_history
        xs, us, yv, fc = ih.get("x"), ih.get("u"), ih.get("yval"), ih.get("func_count")
        det = uhl == 0
        self.c("C19.results")
        nrec = 0 if xs is None else len(xs)
        rec["n_history"] = nrec
        found = False
        last_fc = -1
        evald = {}
        for e in self.calls:
            if "y" in e:
                evald.setdefault(_bits(e["x"]), []).append(e)
        for i in range(nrec):
            if xs[i] is None:
                continue
            self.c("C19.history_records")
            xi = np.asarray(xs[i], float).ravel()
            obs = evald.get(_bits(xi))
            if not obs:
                self.v("C19/recorded-x-never-evaluated", i=i, x=xi)
            else:
                y = float(yv[i])
                if not self._value_observed_at(obs, y):
                    self.v("C19/recorded-value-not-observed-at-recorded-x", i=i, x=xi, yval=y, observed=[e["y"] for e in obs][:6], mode=P.mode)
            if us is not None and us[i] is not None:
                back = b.var_transf.inverse_transf(np.asarray(us[i], float).reshape(1, -1))[0]
                if not np.array_equal(back, xi):
                    self.v("C19/recorded-u-does-not-map-to-recorded-x", i=i, x=xi, back=back)
            if fc is not None and fc[i] is not None:
                if fc[i] < last_fc:
                    self.v("C19/recorded-func-count-decreased", i=i, before=last_fc, after=int(fc[i]))
                if fc[i] > r["func_count"]:
                    self.v("C19/recorded-func-count-exceeds-final", i=i, recorded=int(fc[i]), final=int(r["func_count"]))
                last_fc = fc[i]
            if np.array_equal(xi, xres):
                found = True
        if nrec and not found:
            self.v("C19/result-x-not-a-recorded-iterate", x=xres)
        if nrec and det and xs[nrec - 1] is not None:
            if not np.array_equal(np.asarray(xs[nrec - 1], float).ravel(), xres):
                self.v("C19/deterministic-result-x-not-last-iterate", x=xres, last=xs[nrec - 1])
            elif float(yv[nrec - 1]) != r["fval"]:
                self.v("C19/deterministic-result-fval-not-last-recorded-value", fval=r["fval"], last=float(yv[nrec - 1]))
        # result fields vs problem and final state
        self.c("C19.result_field_checks")
        if r["func_count"] != len(self.calls):
            self.v("C19/result-func-count-wrong", reported=int(r["func_count"]), true=len(self.calls))
        if r["mesh_size"] != b.mesh_size:
            self.v("C19/result-mesh-size-wrong", reported=r["mesh_size"], state=b.mesh_size)
        want_seed = P.options.get("random_seed")
        if r["random_seed"] != want_seed:
            self.v("C19/result-random-seed-wrong", reported=r["random_seed"], want=want_seed)
        unb = bool(np.all(np.isinf(P.lb)) and np.all(np.isinf(P.ub)))
        want_pt = "non-box constraints" if P.cons is not None else ("unconstrained" if unb else "bound constraints")
        if r["problem_type"] != want_pt:
            self.v("C19/result-problem-type-wrong", reported=r["problem_type"], want=want_pt)
        want_tt = "deterministic" if det else ("stochastic (specified noise)" if P.mode == "he" else "stochastic")
        # "agrees with the PROBLEM": a deterministic callable for which the user declared nothing is a deterministic target,
        # a declared / specified-noise one is stochastic - whatever the instance concluded internally
        if P.mode == "det" and not P.options.get("uncertainty_handling") and not P.options.get("specify_target_noise"):
            want_tt = "deterministic"
        elif P.mode in ("declared", "declared+size"):
            want_tt = "stochastic"
        elif P.mode == "he":
            want_tt = "stochastic (specified noise)"
        if r["target_type"] != want_tt:
            self.v("C19/result-target-type-wrong", reported=r["target_type"], want=want_tt)
        x0r = np.asarray(r["x0"], float).ravel()
        if P.x0 is not None:
            # x0 reported = the start as normalised by the constructor (moved strictly inside)
            if not (np.all(x0r >= P.lb) and np.all(x0r <= P.ub)):
                self.v("C19/result-x0-outside-box", x0=x0r)
            moved = np.abs(x0r - P.x0) > 1.1e-3 * np.where(np.isfinite(P.ub - P.lb), P.ub - P.lb, 1e3)
            if np.any(moved):
                self.v("C19/result-x0-differs-from-problem", reported=x0r, given=P.x0)
        if not np.array_equal(x0r, np.asarray(b.x0, float).ravel()):
            self.v("C19/result-x0-differs-from-state", reported=x0r, state=b.x0)


class _CustomError(Exception):
    def __init__(self, msg, code):
        super().__init__(msg)
        self.code = code
