"""Worker subprocess: python -m vlib.worker <PROP> <in.json> <out.jsonl> <timeout_case>"""
import faulthandler
import importlib
import json
import os
import signal
import sys
import time
import traceback


class CaseTimeout(BaseException):
    pass


def _alarm(signum, frame):
    raise CaseTimeout()


def main():
    prop, fin, fout, tmo = sys.argv[1], sys.argv[2], sys.argv[3], float(sys.argv[4])
    from vlib import env

    env.setup_worker()
    from vlib.util import jsonable

    mod = importlib.import_module(f"vlib.props.{prop.lower()}")
    shard = json.load(open(fin))
    signal.signal(signal.SIGALRM, _alarm)
    faulthandler.enable()
    with open(fout, "w") as out:
        seen_D = set()
        for ci, case in shard:
            # the FIRST run of each dimension in this process gets a process-history prelude (see RunMonitor._run_prelude):
            # state kept per process is most often keyed by D and filled by whoever comes first
            if isinstance(case, dict) and isinstance(case.get("spec"), dict) and "prelude" not in case and case["spec"].get("target", {}).get("kind") != "scripted":
                if case["spec"].get("D") not in seen_D:
                    seen_D.add(case["spec"].get("D"))
                    case["prelude"] = True
            t0 = time.time()
            try:
                signal.setitimer(signal.ITIMER_REAL, tmo)
                rec = mod.run_case(case)
                signal.setitimer(signal.ITIMER_REAL, 0)
            except CaseTimeout:
                rec = {"timeout": True, "viol": []}
            except BaseException as e:  # framework error: loud, never a verdict
                signal.setitimer(signal.ITIMER_REAL, 0)
                rec = {"worker_exception": "".join(traceback.format_exception(type(e), e, e.__traceback__))[-2000:], "viol": []}
            rec["ci"] = ci
            rec["case"] = case
            rec["t"] = round(time.time() - t0, 3)
            out.write(json.dumps(jsonable(rec)) + "\n")
            out.flush()


if __name__ == "__main__":
    main()
