"""Child process of the C07 differential monitor: python -m vlib.c07child <spec.json> <plan.json>
Prints one JSON line: per-call digests of (x bytes, returned value bytes), result fields, RNG-state digests."""
import hashlib
import json
import random
import sys


def main():
    from vlib import env

    env.setup_worker()
    import numpy as np
    from pybads import BADS
    from vlib import gen

    spec = json.load(open(sys.argv[1]))
    plan = json.load(open(sys.argv[2]))
    rs_ = spec["options"].get("random_seed")
    if rs_ == "float3":
        spec["options"]["random_seed"] = 3.0
    elif rs_ == "npint7":
        spec["options"]["random_seed"] = np.int64(7)

    def unrelated(seed, D, run=True, noisy=False):
        rs = np.random.RandomState(seed)
        opts = {"display": "off", "max_fun_evals": int(rs.choice([25, 40]))}
        if rs.rand() < 0.5:
            opts["random_seed"] = int(rs.randint(1000))
        if noisy:
            opts["uncertainty_handling"] = True

        def f(x):
            v = float(np.sum((np.asarray(x) - 0.1) ** 2))
            return v + (0.1 * np.random.randn() if noisy else 0.0)

        b = BADS(f, None, -3 * np.ones((1, D)), 4 * np.ones((1, D)), -np.ones((1, D)), np.ones((1, D)), options=opts)
        if run:
            b.optimize()
        return b

    OPTVAR = {"tol_fun": [1e-6, 1e-2, 0.1, 10.0], "tol_mesh": [1e-4, 1e-2], "tol_stall_iters": [3, 10], "accelerate_mesh": [False],
              "complete_poll": [True], "n_search": [1024], "search_grid_number": [5, 20], "hedge_gamma": [0.3], "gp_radius": [2],
              "search_n_try": [1, 6], "n_basis": [50], "max_iter": [7], "poll_mesh_multiplier": [4.0]}

    def sibling(seed, run=True, optvar=False):
        """the SAME problem (same D, bounds, target family) under another seed / budget / design size:
        the history most likely to collide with any per-process cache"""
        rs = np.random.RandomState(seed)
        sp = json.loads(json.dumps(spec))
        sp["options"]["random_seed"] = int(rs.randint(1, 10**6))
        sp["options"]["max_fun_evals"] = int(rs.choice([40, 70]))
        if rs.rand() < 0.6:
            sp["options"]["fun_eval_start"] = int(rs.choice([8, 30, 64]))
            sp["options"]["max_fun_evals"] += sp["options"]["fun_eval_start"]
        if sp.get("x0") is not None and rs.rand() < 0.5:
            sp["x0"] = None if sp["cons"]["kind"] == "none" else sp["x0"]
        if optvar:
            # same problem, same D, OTHER (non-seed) option values: whatever an instance derives from its options must stay its own
            names = sorted(OPTVAR)
            for nm in rs.choice(names, size=int(rs.randint(1, 4)), replace=False):
                sp["options"][str(nm)] = OPTVAR[str(nm)][int(rs.randint(len(OPTVAR[str(nm)])))]
            if rs.rand() < 0.5:
                sp["options"]["tol_fun"] = float(rs.choice(OPTVAR["tol_fun"]))
        P2 = gen.Problem(sp)
        b = BADS(P2.fun, non_box_cons=P2.cons, options=dict(P2.options), **P2.bads_args())
        if run:
            b.optimize()
        return b

    def state_digest():
        st = np.random.get_state()
        return hashlib.sha1(st[1].tobytes() + str(st[2:]).encode()).hexdigest()[:12]

    def build():
        P = gen.Problem(spec)
        calls = []

        def target(x):
            xx = np.array(x, float).ravel()
            r = P.fun(x)
            vb = np.array(r, float).tobytes() if not isinstance(r, tuple) else np.array(r, float).tobytes()
            calls.append(hashlib.sha1(xx.tobytes() + vb).hexdigest()[:16])
            return r

        cons = P.cons
        b = BADS(target, non_box_cons=cons, options=dict(P.options), **P.bads_args())
        return b, calls

    def result_digest(r):
        import numpy as np

        return {"x": np.asarray(r["x"], float).tobytes().hex(), "fval": float(r["fval"]).hex(), "fsd": float(r["fsd"]).hex(),
                "func_count": int(r["func_count"]), "message": r["message"]}

    out = {"plan": plan}
    keep = []
    for step in plan.get("pre", []):
        if step[0] == "opt":
            keep.append(unrelated(step[1], step[2], True, step[3]))
        elif step[0] == "rng":
            np.random.rand(step[1])
            np.random.seed(step[2]) if step[2] is not None else None
            random.random()
        elif step[0] == "construct":
            keep.append(unrelated(step[1], step[2], False, False))
        elif step[0] == "sibling":
            keep.append(sibling(step[1], step[2], bool(step[3]) if len(step) > 3 else False))
        elif step[0] == "printopts":
            # other process-global state an earlier, unrelated piece of code may have touched: numpy's print options and
            # floating-point error handling
            np.set_printoptions(precision=int(step[1]), suppress=True, linewidth=int(step[2]), threshold=int(step[3]), floatmode="fixed")
            np.seterr(all="ignore")
    out["state_at_construction"] = state_digest()
    b, calls = build()
    for step in plan.get("mid", []):
        if step[0] == "opt":
            keep.append(unrelated(step[1], step[2], True, step[3]))
        elif step[0] == "rng":
            np.random.rand(step[1])
            if step[2] is not None:
                np.random.seed(step[2])
        elif step[0] == "construct":
            keep.append(unrelated(step[1], step[2], False, False))
        elif step[0] == "sibling":
            keep.append(sibling(step[1], step[2], bool(step[3]) if len(step) > 3 else False))
    out["state_at_optimize"] = state_digest()
    r = b.optimize()
    out["calls"] = calls
    out["result"] = result_digest(r)
    if plan.get("second"):
        b2, calls2 = build()
        r2 = b2.optimize()
        out["calls2"] = calls2
        out["result2"] = result_digest(r2)
    print("C07CHILD " + json.dumps(out))


if __name__ == "__main__":
    main()
