import numpy as np, warnings, logging, sys, collections
warnings.filterwarnings("ignore"); logging.disable(logging.CRITICAL)
from pybads import BADS
class Boom(Exception):
    def __init__(self,a,b): super().__init__(a,b); self.a=a
st=collections.Counter(); bad=[]
def mk(mode,k,kind):
    n=[0]; rs=np.random.RandomState(7)
    def f(x):
        i=n[0]; n[0]+=1
        x=np.asarray(x,float).ravel(); y=float(np.sum((x-1)**2))
        if mode!="det": y+=0.3*rs.randn()
        s=0.3
        if i==k:
            if kind=="raiseV": raise ValueError("user")
            if kind=="raiseL": raise np.linalg.LinAlgError("user")
            if kind=="raiseB": raise Boom(1,2)
            if kind=="nan": y=float("nan")
            if kind=="inf": y=float("inf")
            if kind=="cplx": y=complex(1,2)
            if kind=="vec": y=np.array([1.,2.])
            if kind=="list": y=[1.,2.]
            if kind=="none": y=None
            if kind=="sd0": s=0.0
            if kind=="sdneg": s=-1.0
            if kind=="sdnan": s=float("nan")
            if kind=="sdinf": s=float("inf")
            if kind=="nopair": return y
            if kind=="triple": return (y,s,1.0)
            if kind=="sdvec": s=np.array([.1,.2])
        return (y,s) if mode=="he" else y
    return f,n
kinds=["raiseV","raiseL","raiseB","nan","inf","cplx","vec","list","none"]
hek=["sd0","sdneg","sdnan","sdinf","nopair","triple","sdvec"]
for mode in ("det","auto","he"):
    o={"display":"off","random_seed":3,"max_fun_evals":45}
    if mode=="he": o.update(specify_target_noise=True,uncertainty_handling=True)
    for k in (0,1,2,5,9,15,25,33,40,44):
        for kind in kinds+(hek if mode=="he" else []):
            f,n=mk(mode,k,kind)
            b=BADS(f,np.ones(2)*2.,-10*np.ones(2),10*np.ones(2),-5*np.ones(2),5*np.ones(2),options=dict(o))
            try:
                r=b.optimize(); res=("returned",n[0])
            except Exception as e:
                res=(type(e).__name__,n[0],b.function_logger.func_count)
            exp={"raiseV":"ValueError","raiseL":"LinAlgError","raiseB":"Boom"}.get(kind,"ValueError")
            ok = res[0]==exp and res[1]==k+1 and res[2]==k
            st[(mode,ok)]+=1
            if not ok: bad.append((mode,k,kind,res))
print(dict(st)); print(bad[:30])
