import numpy as np, warnings, collections
warnings.filterwarnings("ignore")
from pybads.function_logger import FunctionLogger
from pybads.variable_transformer import VariableTransformer
class Model:
    def __init__(s,mode): s.mode=mode; s.rows=[]; s.func_count=0; s.cache_count=0
    def find_all(s,u): return [i for i,r in enumerate(s.rows) if np.array_equal(r["u"],u)]
    def call(s,u,x,y,sd,record):
        s.func_count+=1
        if not record:
            m=s.find_all(u)
            if m: s.rows[m[-1]]["n"]+=1
            return
        s._rec(u,x,y,sd)
    def add(s,u,x,y,sd):
        s.cache_count+=1
        if s.mode>0 and sd is None: sd=1
        if s.mode==0: sd=None
        s._rec(u,x,y,sd)
    def _rec(s,u,x,y,sd):
        if sd is not None:
            m=s.find_all(u)
            if m:
                r=s.rows[m[0]]; tn=1/r["S"]**2; t1=1/sd**2
                r["Y"]=(tn*r["Y"]+t1*y)/(tn+t1); r["S"]=1/np.sqrt(tn+t1); r["n"]+=1; return
        s.rows.append(dict(u=u.copy(),x=x.copy(),Y=y,Yo=y,S=sd,n=1))
def compare(fl,m,mode):
    n=len(m.rows); errs=[]
    if fl.Xn!=n-1: errs.append(("Xn",fl.Xn,n-1))
    if fl.func_count!=m.func_count: errs.append(("func_count",))
    if fl.cache_count!=m.cache_count: errs.append(("cache_count",))
    if n and fl.X_max_idx!=n-1: errs.append(("X_max_idx",fl.X_max_idx,n-1))
    for i,r in enumerate(m.rows):
        if not np.array_equal(fl.X[i],r["u"]): errs.append(("X",i))
        if not np.array_equal(fl.X_orig[i],r["x"]): errs.append(("X_orig",i))
        if not np.isclose(fl.Y[i,0],r["Y"],rtol=1e-12,atol=0): errs.append(("Y",i,fl.Y[i,0],r["Y"]))
        if fl.Y_orig[i,0]!=r["Yo"]: errs.append(("Y_orig",i))
        if fl.n_evals[i,0]!=r["n"]: errs.append(("n_evals",i,fl.n_evals[i,0],r["n"]))
        if not fl.X_flag[i]: errs.append(("flag",i))
        if mode>0 and r["S"] is not None and not np.isclose(fl.S[i,0],r["S"],rtol=1e-12): errs.append(("S",i))
    if np.any(~np.isnan(fl.X[n:]))|np.any(~np.isnan(fl.Y[n:]))|np.any(fl.X_flag[n:])|np.any(fl.n_evals[n:]!=0): errs.append(("tail",))
    if n and fl.Y_max!=max(r_["Y"] if True else 0 for r_ in m.rows) and not np.isclose(fl.Y_max,max(r_["Y"] for r_ in m.rows)): errs.append(("Y_max",))
    return errs
rng=np.random.default_rng(0); agg=collections.Counter(); first={}
for trial in range(3000):
    D=int(rng.integers(1,4)); mode=int(rng.choice([0,1,2])); cs=int(rng.integers(1,6)); tr=rng.random()<0.5
    vt=VariableTransformer(D,np.full((1,D),-4.),np.full((1,D),4.),np.full((1,D),-2.),np.full((1,D),2.)) if tr else None
    cur={}
    def fun(x):
        y=cur["y"]; return (y,cur["sd"]) if mode==2 else y
    fl=FunctionLogger(fun,D,mode>0,mode,cs,vt); m=Model(mode)
    ops=[]
    for step in range(int(rng.integers(3,25))):
        u=rng.choice([-0.5,0.0,0.5],D).astype(float); x=vt.inverse_transf(u[None,:])[0] if tr else u
        y=float(np.round(rng.normal(),3)); sd=float(rng.choice([0.5,1.0,2.0]))
        op=rng.choice(["call","norec","add"],p=[0.6,0.25,0.15])
        if op=="add" and mode==1: op="call"
        cur.update(y=y,sd=sd); ops.append((op,u.tolist(),y,sd))
        try:
            if op=="call": fl(u.copy()); m.call(u,x,y,sd if mode==2 else None,True)
            elif op=="norec": fl(u.copy(),record_duplicate_data=False); m.call(u,x,y,sd if mode==2 else None,False)
            else: fl.add(u.copy(),y,sd if mode==2 else None); m.add(u,x,y,sd if mode==2 else None)
        except Exception as e:
            agg[("exc",mode,type(e).__name__,str(e)[:40])]+=1; first.setdefault(("exc",mode,type(e).__name__),ops[-6:]); break
        errs=compare(fl,m,mode)
        if errs:
            key=(mode,errs[0][0]); agg[key]+=1; first.setdefault(key,(D,cs,tr,ops[-5:],errs[:3])); break
    else: agg[("ok",mode)]+=1
for k,v in sorted(agg.items(),key=lambda kv:str(kv[0])): print(k,v)
for k,v in first.items(): print("FIRST",k,v)
