import numpy as np, warnings, collections, copy
from pybads.utils.iteration_history import IterationHistory
rng=np.random.default_rng(1); st=collections.Counter(); ex={}
def eq(a,b):
    if isinstance(a,np.ndarray) or isinstance(b,np.ndarray): return isinstance(a,np.ndarray) and isinstance(b,np.ndarray) and np.array_equal(a,b)
    if isinstance(a,(list,dict)) or isinstance(b,(list,dict)): return a==b
    return a is b or a==b
for t in range(5000):
    keys=["a","b","c"]; H=IterationHistory(keys); M={k:None for k in keys}; ops=[]
    for step in range(int(rng.integers(1,15))):
        op=rng.choice(["rec","reci","badkey","neg","get"])
        k=str(rng.choice(keys)); it=int(rng.integers(0,6))
        c=rng.integers(0,6)
        v=[1,2.5,"s",None,np.array(rng.integers(0,5,3)),[1,[2,3]]][c]
        ops.append((str(op),k,it,repr(v)))
        try:
            if op=="rec":
                H.record(k,v,it)
                if M[k] is None: M[k]=[None]
                while len(M[k])<=it: M[k].append(None)
                M[k][it]=copy.deepcopy(v)
                if isinstance(v,np.ndarray): v[:]=-1
                if isinstance(v,list): v.append(9)
            elif op=="reci":
                H.record_iteration({"a":v,"b":it},it)
                for kk,vv in (("a",v),("b",it)):
                    if M[kk] is None: M[kk]=[None]
                    while len(M[kk])<=it: M[kk].append(None)
                    M[kk][it]=copy.deepcopy(vv)
            elif op=="badkey":
                for fn in (lambda: H.record("zzz",1,0), lambda: H.__setitem__("zzz",1), lambda: H.record_iteration({"zzz":1},0)):
                    try: fn(); st["badkey_accepted"]+=1
                    except ValueError: pass
            elif op=="neg":
                for fn in (lambda: H.record(k,1,-1), lambda: H.record_iteration({k:1},-2)):
                    try: fn(); st["neg_accepted"]+=1
                    except ValueError: pass
        except Exception as e:
            st["exc_"+type(e).__name__+"_"+str(op)]+=1; ex.setdefault("exc_"+type(e).__name__,(ops[-4:],str(e)[:60])); break
        bad=False
        for kk in keys:
            h=H[kk]; m=M[kk]
            if m is None: ok = h is None
            else: ok = h is not None and len(h)==len(m) and all(eq(a,b_) for a,b_ in zip(list(h),m))
            if not ok: bad=True; st["mismatch_after_"+str(op)]+=1; ex.setdefault("mm_"+str(op),(ops[-4:],kk,h,m))
        if bad: break
    st["seqs"]+=1
print(dict(st)); 
for k,v in ex.items(): print(k,v)
