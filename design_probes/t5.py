import numpy as np, warnings, traceback, sys
warnings.filterwarnings("ignore")
from pybads import BADS
import pybads.bads.bads as B
import pybads.bads.gaussian_process_train as G
D=2
def he(x):
    y=float(np.sum(np.asarray(x)**2)); s=0.5+0.1*np.sqrt(y); return y+s*np.random.randn(), s
seen={"local":0,"sd":0,"var":0,"add":0}
orig=G.local_gp_fitting
def wrap(gp,u,fl,*a,**k):
    gp2,flag=orig(gp,u,fl,*a,**k)
    seen["local"]+=1
    if gp2.s2 is not None:
        # compare with logger
        S=fl.S[:fl.Xn+1].ravel(); X=fl.X[:fl.Xn+1]
        for i in range(min(3,len(gp2.X))):
            j=np.where(np.all(X==gp2.X[i],axis=1))[0]
            if len(j):
                if np.isclose(gp2.s2.ravel()[i],S[j[0]]): seen["sd"]+=1
                elif np.isclose(gp2.s2.ravel()[i],S[j[0]]**2): seen["var"]+=1
    return gp2,flag
B.local_gp_fitting=wrap
b=BADS(he, np.ones(D)*2.0, -10*np.ones(D), 10*np.ones(D), -5*np.ones(D), 5*np.ones(D), options={"display":"off","random_seed":2,"specify_target_noise":True,"uncertainty_handling":True,"max_fun_evals":150})
r=b.optimize(); print(seen, r.func_count, r.x, r.fval, r.fsd, r.yval_vec, r.ysd_vec, r.message)
print("n_evals>1:", int(np.sum(b.function_logger.n_evals>1)))
