import numpy as np, warnings
warnings.filterwarnings("ignore")
from pybads.variable_transformer import VariableTransformer as VT
for lb,plb,pub,ub in ((1,10,1e11,1e12),(1e-12,1e-10,1e-2,1.0),(1e-3,1,1e6,1e9),(1e-3,1,1e3,1e7),(1e-3,1,1e3,1e8),(-1e12,-1e11,1e11,1e12),(-np.inf,-1e11,1e11,np.inf),(1e-12,2e-12,3e-11,1e12)):
    try:
        v=VT(1,np.array([[lb]]),np.array([[ub]]),np.array([[plb]]),np.array([[pub]]))
        xs=np.array([[lb if np.isfinite(lb) else plb*3],[plb],[pub],[ub if np.isfinite(ub) else pub*3],[0.5*(plb+pub)]],float)
        err=[abs(v.inverse_transf(v(x[None,:]))[0,0]-x[0]) for x in xs]
        print(lb,plb,pub,ub,"log",v.apply_log_t.ravel(),"lb,ub",v.lb.ravel(),v.ub.ravel(),"plb,pub",v.plb.ravel(),v.pub.ravel(),"maxerr",max(err))
    except Exception as e: print(lb,plb,pub,ub,type(e).__name__,str(e)[:80])
