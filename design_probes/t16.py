import numpy as np, warnings, logging, traceback
warnings.filterwarnings("ignore"); logging.disable(logging.CRITICAL)
from pybads import BADS
def run(x0,lb,ub,plb,pub,tag):
    calls=[]
    def f(x): calls.append(np.array(x,float).ravel().copy()); return float(np.sum((np.log10(np.abs(np.asarray(x,float))+1e-9)-1)**2))
    try:
        b=BADS(f,x0,lb,ub,plb,pub,options={"display":"off","random_seed":1,"max_fun_evals":15})
        print(tag,"x0",b.x0,b.x0.dtype,"lb",b.lower_bounds,"ub",b.upper_bounds,"plb",b.plausible_lower_bounds,"pub",b.plausible_upper_bounds,"log",b.var_transf.apply_log_t.ravel())
        r=b.optimize(); print("   ->",len(calls),r.x,r.fval)
        return np.array(calls)
    except Exception as e:
        tb=traceback.extract_tb(e.__traceback__); print(tag,type(e).__name__,str(e)[:90],[(t.filename.split('/')[-1],t.lineno) for t in tb][-2:]); return None
a=run(np.array([5.]),np.array([1.]),np.array([1000.]),np.array([2.]),np.array([200.]),"float")
b=run(np.array([5]),np.array([1]),np.array([1000]),np.array([2]),np.array([200]),"int  ")
c=run([5],[1],[1000],[2],[200],"list ")
d=run(5,1,1000,2,200,"scal ")
e=run((5.,),(1.,),(1000.,),(2.,),(200.,),"tuple")
g=run(np.array([[5.]]),np.array([[1.]]),np.array([[1000.]]),np.array([[2.]]),np.array([[200.]]),"2d   ")
for n,v in (("int",b),("list",c),("scal",d),("tuple",e),("2d",g)):
    print(n, None if v is None else (v.shape==a.shape and np.array_equal(v,a)))
# linear ints D=2
a=run(np.array([1.,2.]),np.array([-5.,-5.]),np.array([5.,5.]),np.array([-2.,-2.]),np.array([3.,3.]),"float2")
b=run([1,2],[-5,-5],[5,5],[-2,-2],[3,3],"intlist2")
print(np.array_equal(a,b))
