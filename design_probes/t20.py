import os; os.environ["PYBADS_VERIF"]="1"
import numpy as np, warnings, logging, sys, collections
warnings.filterwarnings("ignore"); logging.disable(logging.CRITICAL)
from pybads import BADS
import pybads.bads.bads as B
assert B.__file__.startswith("/tmp/x/rc")
st=collections.Counter(); log=[]
def probe(ev,b,info):
    st["loop"]+=1
    x=b.var_transf.inverse_transf(np.atleast_2d(b.u_best))[0]
    obs=[v for (p,v) in log if np.array_equal(p,x)]
    yv=float(np.asarray(b.yval).ravel()[0])
    if not obs: st["ubest_not_eval"]+=1
    elif not (min(obs)-1e-12<=yv<=max(obs)+1e-12): st["yval_mismatch"]+=1
    if not np.array_equal(np.asarray(b.u).ravel(),np.asarray(b.u_best).ravel()): st["u!=u_best"]+=1
    k=b.mesh_size_integer
    if "k" in st and not info["do_poll_step"] and st["k"]!=k: st["mesh_changed_outside_poll"]+=1
    st["k"]=k
B._verif_probe=probe
def nf(x):
    x=np.asarray(x,float).ravel(); y=float(np.sum(x**2))+0.5*np.random.randn(); log.append((x.copy(),y)); return y
def he(x):
    x=np.asarray(x,float).ravel(); y=float(np.sum(x**2)); s=0.5+0.1*np.sqrt(y); v=y+s*np.random.randn(); log.append((x.copy(),v)); return v,s
def det(x):
    x=np.asarray(x,float).ravel(); y=float(50*np.sum(np.abs(x-1.3))); log.append((x.copy(),y)); return y
for name,fun,opts in (("noisy",nf,{}),("he",he,{"specify_target_noise":True,"uncertainty_handling":True}),("det",det,{})):
  for seed in range(5):
    log.clear(); st.pop("k",None)
    o={"display":"off","random_seed":seed,"max_fun_evals":150}; o.update(opts)
    b=BADS(fun,np.ones(2)*2.,-10*np.ones(2),10*np.ones(2),-5*np.ones(2),5*np.ones(2),options=o)
    try: r=b.optimize()
    except Exception as e: st["crash_"+type(e).__name__]+=1
print(dict(st))
