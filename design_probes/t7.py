import numpy as np, warnings, traceback, sys
warnings.filterwarnings("ignore")
from pybads import BADS
from gpyreg.gaussian_process import GP
D=2
def he(x):
    y=float(np.sum(np.asarray(x)**2)); s=0.5+0.1*np.sqrt(y); return y+s*np.random.randn(), s
def det(x): return float(np.sum(np.asarray(x)**2))
orig=GP.fit
state={"n":0,"fail":set()}
def fit(self,*a,**k):
    i=state["n"]; state["n"]+=1
    if i in state["fail"]: raise np.linalg.LinAlgError("injected")
    return orig(self,*a,**k)
GP.fit=fit
for name,fun,opts in (("det",det,{}),("he",he,{"specify_target_noise":True,"uncertainty_handling":True}),("noisy",lambda x: det(x)+np.random.randn()*0.2,{"uncertainty_handling":True})):
  for fail in ([0],[0,1],[0,1,2,3],[1],[2,3],[3,4,5],[5,6,7,8],[2,5,9]):
    state["n"]=0; state["fail"]=set(fail)
    try:
        o={"display":"off","random_seed":2,"max_fun_evals":80}; o.update(opts)
        b=BADS(fun, np.ones(D)*2.0, -10*np.ones(D), 10*np.ones(D), -5*np.ones(D), 5*np.ones(D), options=o)
        r=b.optimize(); print(name,fail,"OK fits",state["n"], r.func_count, round(r.fval,4))
    except Exception as e:
        tb=traceback.extract_tb(e.__traceback__); print(name,fail,type(e).__name__, str(e)[:100], [(t.filename.split('/')[-1],t.lineno) for t in tb][-3:])
