import os; os.environ["PYBADS_VERIF"]="1"
import numpy as np, warnings, logging, sys, collections
warnings.filterwarnings("ignore"); logging.disable(logging.CRITICAL)
from pybads import BADS
import pybads.bads.bads as B
assert B.__file__.startswith("/tmp/x/rc")
st={}
def probe(ev,b,info):
    fc=b.function_logger.func_count; k=b.mesh_size_integer; sc=b.optim_state["search_count"]
    prev=st.get("prev")
    if prev is not None:
        ev_=fc>prev[0]; md=k<prev[1]; si=sc>prev[2]
        if not (ev_ or md or si): st["nonprog"]+=1; st["np_ex"].append((prev,(fc,k,sc),info))
        if not ev_: st["streak"]+=1; st["maxstreak"]=max(st["maxstreak"],st["streak"])
        else: st["streak"]=0
    st["prev"]=(fc,k,sc); st["iters"]+=1
    st["kinds"][(info["do_search_step"],info["do_poll_step"])]+=1
B._verif_probe=probe
rng=np.random.default_rng(0)
tot=collections.Counter()
for case in range(40):
    D=int(rng.integers(1,4)); kind=rng.choice(["bowl","l1","script_dec","script_const","script_rand","stair"])
    seq=[0]
    def f(x,kind=kind):
        x=np.asarray(x,float).ravel(); seq[0]+=1
        if kind=="bowl": return float(np.sum((x-1)**2))
        if kind=="l1": return float(50*np.sum(np.abs(x-1.3)))
        if kind=="script_dec": return 1000.0-seq[0]*7.0
        if kind=="script_const": return 3.0
        if kind=="script_rand": return float(np.sin(seq[0]*12.9898)*43758.5453%1)
        return float(np.sum(np.floor(np.abs(x-1.3)*3)))
    opts={"display":"off","random_seed":int(rng.integers(1000)),"max_fun_evals":int(rng.choice([40,80,150]))}
    if rng.random()<0.3: opts["search_n_try"]=int(rng.choice([0,1]))
    if rng.random()<0.3: opts["complete_poll"]=True
    if rng.random()<0.3: opts["tol_mesh"]=float(rng.choice([1e-2,1e-4]))
    st.clear(); st.update(prev=None,nonprog=0,streak=0,maxstreak=0,iters=0,np_ex=[],kinds=collections.Counter())
    try:
        b=BADS(f,np.ones(D)*2.0,-10*np.ones(D),10*np.ones(D),-5*np.ones(D),5*np.ones(D),options=opts); r=b.optimize()
        print(case,kind,D,{k:v for k,v in opts.items() if k not in("display","random_seed")},"iters",st["iters"],"nonprog",st["nonprog"],"maxstreak",st["maxstreak"],"ntry",b.options["search_n_try"],dict(st["kinds"]),r.func_count,r.message[-28:])
        if st["np_ex"]: print("   ",st["np_ex"][:2])
    except Exception as e:
        import traceback; tb=traceback.extract_tb(e.__traceback__); print(case,kind,D,type(e).__name__,str(e)[:70],[(t.filename.split('/')[-1],t.lineno) for t in tb][-2:])
