import numpy as np, warnings, logging, sys, collections, itertools
warnings.filterwarnings("ignore"); logging.disable(logging.CRITICAL)
from pybads import BADS
A=None; inf=np.inf; nan=np.nan
vals=[A,-inf,inf,nan,-3.,-1.,0.,1.,1+2**-52,2.,5.]
def spec(x0,lb,ub,plb,pub):
    # all are lists per coordinate or None (absent)
    if plb is None and lb is not None: plb=list(lb)
    if pub is None and ub is not None: pub=list(ub)
    if x0 is None and (plb is None or pub is None): return "nodim"
    D=len(x0) if x0 is not None else len(plb)
    for v in (lb,ub,plb,pub):
        if v is not None and len(v)!=D: return "dim"
    if lb is None: lb=[-inf]*D
    if ub is None: ub=[inf]*D
    if plb is None: plb=list(lb)
    if pub is None: pub=list(ub)
    lb,ub,plb,pub=map(lambda a: np.array(a,float),(lb,ub,plb,pub))
    if not (np.all(np.isfinite(plb)) and np.all(np.isfinite(pub))): return "pbfinite"
    if np.any(plb==pub): return "pbequal"
    if np.any(np.isnan(lb))|np.any(np.isnan(ub)): return "order"
    if not np.all((lb<=plb)&(plb<pub)&(pub<=ub)): return "order"
    if x0 is not None:
        x=np.array(x0,float)
        if np.any(x<lb)|np.any(x>ub): return "x0out"
    if np.any(lb==ub): return "fixed"
    if np.any(np.isfinite(lb)!=np.isfinite(ub)): return "half"
    gap=ub-lb; sc=np.maximum(np.abs(lb),np.abs(ub)); 
    if np.any(np.isfinite(gap)&(gap<=1e-9*np.maximum(sc,1e-300))): return "dontcare"
    return "valid"
cnt=collections.Counter(); dis=collections.Counter(); ex={}
rng=np.random.default_rng(0)
calls=[0]
def f(x): calls[0]+=1; return 0.0
def arr(v): return None if v is None else np.array(v,float)
def trial(x0,lb,ub,plb,pub):
    s=spec(x0,lb,ub,plb,pub); calls[0]=0
    try:
        b=BADS(f,arr(x0),arr(lb),arr(ub),arr(plb),arr(pub),options={"display":"off"}); out="accepted"
        ok=np.all(b.lower_bounds<=b.plausible_lower_bounds)&np.all(b.plausible_lower_bounds<b.plausible_upper_bounds)&np.all(b.plausible_upper_bounds<=b.upper_bounds)
        if not ok: out="accepted-badnorm"
    except ValueError: out="ValueError"
    except Exception as e: out=type(e).__name__
    if calls[0]: out+="+called"
    cnt[(s,out)]+=1
    exp = "accepted" if s=="valid" else ("any" if s=="dontcare" else "ValueError")
    if exp!="any" and out!=exp:
        dis[(s,out)]+=1; ex.setdefault((s,out),(x0,lb,ub,plb,pub))
for i in range(6000):
    D=1 if i<4000 else 2
    pick=lambda: None if rng.random()<0.15 else [vals[j] for j in rng.integers(1,len(vals),D)]
    trial(pick(),pick(),pick(),pick(),pick())
for k,v in sorted(cnt.items(),key=lambda kv:-kv[1]): print(k,v)
print("DISAGREE"); 
for k,v in dis.items(): print(k,v,ex[k])
