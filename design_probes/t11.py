import numpy as np, warnings, sys, time, logging, json
warnings.filterwarnings("ignore")
from concurrent.futures import ProcessPoolExecutor
def one(seed):
    import logging; logging.disable(logging.CRITICAL)
    from pybads import BADS
    rng=np.random.default_rng(seed)
    D=int(rng.integers(1,6))
    Q,_=np.linalg.qr(rng.normal(size=(D,D))); ev=np.exp(rng.uniform(0,np.log(100),D)); 
    if D>1: ev[0]=1; ev[-1]=rng.choice([1,10,100])
    A=Q@np.diag(ev)@Q.T; xs=rng.uniform(-4,4,D)
    plb=-5*np.ones(D); pub=5*np.ones(D); lb=-20*np.ones(D); ub=20*np.ones(D)
    x0=rng.uniform(plb,pub)
    st={"n":0,"best":np.inf,"t2":None,"f0":None}
    def f(x):
        x=np.asarray(x,float).ravel(); d=x-xs; y=float(0.5*d@A@d); st["n"]+=1
        if st["f0"] is None: st["f0"]=y
        if y<st["best"]: st["best"]=y
        if st["t2"] is None and st["best"]<=1e-2: st["t2"]=st["n"]
        return y
    t=time.time()
    r=BADS(f,x0,lb,ub,plb,pub,options={"display":"off","random_seed":int(seed)}).optimize()
    return dict(seed=int(seed),D=D,gap=float(r.fval),t2=st["t2"],n=st["n"],f0=st["f0"],worse=bool(r.fval>st["f0"]),wall=time.time()-t,cond=float(ev.max()/ev.min()))
if __name__=="__main__":
    N=int(sys.argv[1]); 
    with ProcessPoolExecutor(16) as ex: res=list(ex.map(one,range(1000,1000+N)))
    ok=np.mean([r["gap"]<=1e-3 for r in res]); print("frac<=1e-3",ok,"worse",sum(r["worse"] for r in res))
    for D in range(1,6):
        rs=[r for r in res if r["D"]==D]
        t2=[r["t2"] if r["t2"] else 10**9 for r in rs]
        print(D,len(rs),"ok",np.mean([r["gap"]<=1e-3 for r in rs]),"median t2/D",np.median(t2)/D,"max t2/D",max(t2)/D,"mean n",np.mean([r["n"] for r in rs]),"wall",np.mean([r["wall"] for r in rs]))
    print("panel median t2/D", np.median([ (r["t2"] if r["t2"] else 10**9)/r["D"] for r in res]))
    print([ (r["seed"],r["D"],r["gap"],r["cond"]) for r in res if r["gap"]>1e-3])
