import numpy as np, warnings, logging, sys, collections
warnings.filterwarnings("ignore"); logging.disable(logging.CRITICAL)
from pybads import BADS
import pybads.bads.bads as B
import pybads.bads.gaussian_process_train as G
import pybads.search.es_search as ES
from gpyreg.gaussian_process import GP
st=collections.Counter()
cur={}
# --- C15: neighbours
og=G.get_grid_search_neighbors
def ngh(fl,u,gp,options,optim_state):
    U,Y,S=og(fl,u,gp,options,optim_state); st["ngh"]+=1
    n=fl.X_max_idx+1; X=fl.X[:n]; Yl=fl.Y[:n]
    ls=gp.temporary_data["len_scale"]
    d=np.sum(((X-np.atleast_2d(u))/ls)**2,axis=1)
    # rows are logged
    idx=[]
    for r in range(len(U)):
        j=np.where(np.all(X==U[r],axis=1)&(Yl.ravel()==Y[r].ravel()[0]))[0]
        if len(j)==0: st["ngh_notlogged"]+=1
        else: idx.append(j[0])
    dr=np.sum(((U-np.atleast_2d(u))/ls)**2,axis=1)
    if np.any(np.diff(dr)<-1e-12): st["ngh_unsorted"]+=1
    ds=np.sort(d)[:len(dr)]
    if not np.allclose(np.sort(dr),ds,rtol=1e-12,atol=1e-15): st["ngh_notnearest"]+=1
    nt=len(U)
    if not (min(n,options["n_train_min"])<=nt<=max(options["n_train_max"],options["n_train_min"])): st["ngh_size"]+=1
    return U,Y,S
G.get_grid_search_neighbors=ngh
of=GP.fit
def fit(self,X=None,y=None,s2=None,**k):
    st["fit"]+=1
    fl=cur["b"].function_logger; n=fl.Xn+1
    for r in range(len(X)):
        j=np.where(np.all(fl.X[:n]==X[r],axis=1))[0]
        if len(j)==0 or not np.any(fl.Y[j].ravel()==y[r].ravel()[0]): st["fit_notlogged"]+=1
    return of(self,X,y,s2,**k)
GP.fit=fit
# --- C18: ES
oa=ES.acq_fcn_lcb
def acq(xi,fc,gp,sb=None):
    r=oa(xi,fc,gp,sb); 
    if "es" in cur: cur["es"].append((xi.copy(),r[0].ravel().copy()))
    return r
ES.acq_fcn_lcb=acq
oe=ES.ESSearch.__call__
def esc(self,u,lb,ub,fl,gp,os_,sum_rule=True,non_box_cons=None):
    cur["es"]=[]
    us,z=oe(self,u,lb,ub,fl,gp,os_,sum_rule,non_box_cons); st["es"]+=1
    allu=np.vstack([a for a,_ in cur["es"]]); allz=np.concatenate([b for _,b in cur["es"]])
    if not np.isclose(z,allz.min(),rtol=0,atol=0): st["es_notmin"]+=1
    j=np.where(allz==allz.min())[0]
    if not any(np.array_equal(allu[i],us) for i in j): st["es_notarg"]+=1
    if np.any(allu<os_["lb_search"])|np.any(allu>os_["ub_search"]): st["es_oob"]+=1
    g=allu/os_["search_mesh_size"]
    if np.any(np.abs(g-np.round(g))>1e-9): st["es_offgrid"]+=1
    st["es_gen"]+=len(cur["es"]); st["es_cands"]+=len(allu)
    if len(cur["es"])>1 and allz.argmin()>=len(cur["es"][0][1]): st["es_win_gen2"]+=1
    del cur["es"]
    return us,z
ES.ESSearch.__call__=esc
# --- C17 in-run
for mod,name in ((B,"bads"),(ES,"es")):
    oc=mod.contraints_check
    def cc(U,lb,ub,tol,fl,proj=True,nbc=None,oc=oc,name=name):
        R=oc(U,lb,ub,tol,fl,proj,nbc); st["filt_"+name]+=1
        if R.size:
            if np.any(R<lb)|np.any(R>ub): st["filt_oob"]+=1
            if len(np.unique(R,axis=0))!=len(R): st["filt_dup"]+=1
            n=fl.X_max_idx+1
            if n>0:
                a=np.round(R/(tol/2)); b=np.round(fl.X[:n]/(tol/2))
                hit=sum(any(np.array_equal(r,q) for q in b) for r in a)
                st["filt_revisit_rows"]+=hit; st["filt_rows"]+=len(R)
            if nbc is not None and np.any(nbc(fl.variable_transformer.inverse_transf(R))>0): st["filt_infeas"]+=1
        return R
    mod.contraints_check=cc
def he(x):
    y=float(np.sum(np.asarray(x)**2)); s=0.5+0.1*np.sqrt(y); return y+s*np.random.randn(), s
cons=lambda X: np.sum(np.atleast_2d(X)**2,axis=1)<1.0   # infeasible inside unit ball
for seed in range(3):
  for name,fun,opts,c in (("det",lambda x: float(np.sum((np.asarray(x)-0.2)**2)),{},cons),("det2",lambda x: float(np.sum((np.asarray(x)-12)**2)),{},None),("noisy",lambda x: float(np.sum(np.asarray(x)**2))+0.3*np.random.randn(),{},None)):
    D=2+seed%2
    o={"display":"off","random_seed":seed,"max_fun_evals":120}; o.update(opts)
    b=BADS(fun,np.ones(D)*2.,-10*np.ones(D),10*np.ones(D),-5*np.ones(D),5*np.ones(D),non_box_cons=c,options=o); cur["b"]=b
    try: r=b.optimize()
    except Exception as e: print(name,seed,type(e).__name__,str(e)[:60])
print(dict(st))
