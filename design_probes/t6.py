import numpy as np, warnings, traceback, sys
warnings.filterwarnings("ignore")
from pybads import BADS
D=2
def nf(x): return float(np.sum(np.asarray(x)**2))+0.3*np.random.randn()
for opts in ({"uncertainty_handling":True},{}, {"uncertainty_handling":True,"noise_size":0.3}, {"noise_final_samples":1}, {"noise_final_samples":0}):
  try:
    o={"display":"off","random_seed":2,"max_fun_evals":120}; o.update(opts)
    b=BADS(nf, np.ones(D)*2.0, -10*np.ones(D), 10*np.ones(D), -5*np.ones(D), 5*np.ones(D), options=o)
    r=b.optimize(); print(opts, r.func_count, r.x, r.fval, r.fsd, None if r.yval_vec is None else r.yval_vec.shape, r.ysd_vec, r.target_type, r.message[-40:])
  except Exception as e:
    tb=traceback.extract_tb(e.__traceback__); print(opts, type(e).__name__, e, [(t.filename.split('/')[-1],t.lineno) for t in tb][-3:])
