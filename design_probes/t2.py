import numpy as np, warnings, traceback
warnings.filterwarnings("ignore")
from pybads import BADS
from pybads.function_logger import FunctionLogger
f=lambda x: float(np.sum(np.asarray(x)**2))
# C08 mixed bounded/unbounded
try:
    b=BADS(f, np.array([0.5,0.0]), np.array([0,-np.inf]), np.array([1,np.inf]), np.array([0.2,-1]), np.array([0.8,1]), options={"display":"off"})
    print("C08 mixed accepted")
except Exception as e: print("C08 mixed:", type(e).__name__, str(e)[:80])
# C12 duplicate merge
fl=FunctionLogger(lambda x:(float(np.sum(x)),1.0), 2, True, 2, cache_size=4)
fl(np.array([1.,2.])); fl(np.array([1.,3.])); fl(np.array([0.,3.]))
print(fl.Y[:4].T, fl.n_evals[:4].T)
fl(np.array([0.,3.]))
print(fl.Y[:4].T, fl.S[:4].T, fl.n_evals[:4].T, fl.Xn, fl.func_count)
