import time, numpy as np, warnings
warnings.filterwarnings("ignore")
from pybads import BADS
calls=[]
def f(x):
    calls.append(np.array(x,copy=True)); return float(np.sum(np.asarray(x)**2))
for D in (1,2,3,5):
    calls.clear()
    t=time.time()
    b=BADS(f, np.ones(D)*2.0, -10*np.ones(D), 10*np.ones(D), -5*np.ones(D), 5*np.ones(D), options={"display":"off","random_seed":3})
    r=b.optimize()
    print(D, time.time()-t, r.func_count, len(calls), r.fval, r.message, r.iterations, r.mesh_size)
