import numpy as np, warnings, logging, collections, copy, sys, pickle
warnings.filterwarnings("ignore"); logging.disable(logging.CRITICAL)
from pybads import BADS
def snap(o):
    out={}
    for k in o.keys():
        v=o[k]
        out[k]=("callable",) if callable(v) else copy.deepcopy(v)
    return out
def same(a,b):
    if set(a)!=set(b): return False
    for k in a:
        x,y=a[k],b[k]
        if isinstance(x,np.ndarray) or isinstance(y,np.ndarray):
            if not np.array_equal(np.asarray(x),np.asarray(y)): return False
        elif x!=y: return False
    return True
nf=lambda x: float(np.sum(np.asarray(x)**2))+0.3*np.random.randn()
def he(x): return float(np.sum(np.asarray(x)**2))+0.3*np.random.randn(),0.3
det=lambda x: float(np.sum(np.asarray(x)**2))
# isolation
A=BADS(det,np.zeros(2)+0.5,-np.ones(2)*3,np.ones(2)*3,options={"display":"off","tol_fun":1e-2,"max_fun_evals":30})
sA=snap(A.options)
uo={"display":"off","max_fun_evals":60,"uncertainty_handling":True,"specify_target_noise":True,"tol_mesh":1e-3,"random_seed":1}
uo_keep=copy.deepcopy(uo)
x0=np.array([[1.,1.,1.,1.,1.]]); lb=-np.ones((1,5))*4; ub=np.ones((1,5))*4; keep=[a.copy() for a in (x0,lb,ub)]
Bi=BADS(he,x0,lb,ub,options=uo)
print("A unchanged after B ctor",same(sA,snap(A.options)))
sB0=snap(Bi.options)
Bi.optimize()
print("A unchanged after B run",same(sA,snap(A.options)), "B own options changed by run:",[k for k in sB0 if not same({k:sB0[k]},{k:snap(Bi.options)[k]})])
print("caller dict unchanged",uo==uo_keep,"caller arrays unchanged",all(np.array_equal(a,k) for a,k in zip((x0,lb,ub),keep)))
rA=A.optimize(); print("A ran",rA.func_count, A.options["max_iter"], A.options["search_n_try"], A.options["tol_noise"])
C=BADS(nf,None,-np.ones(1)*3,np.ones(1)*3,options={"display":"off","max_fun_evals":40}); sC=snap(C.options); C.optimize()
print("C(D=1) defaults", sC["max_iter"], sC["max_fun_evals"], sC["n_basis"], sC["search_n_try"])
