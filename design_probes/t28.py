import numpy as np, warnings, logging, collections, copy
warnings.filterwarnings("ignore"); logging.disable(logging.CRITICAL)
from pybads import BADS
from pybads.bads.optimize_result import OptimizeResult
from pybads.utils.iteration_history import IterationHistory
# --- OptimizeResult API
f=lambda x: float(np.sum((np.asarray(x)-1)**2))
x0=np.array([[2.,2.]]); lb=np.array([[-10.,-10.]]); ub=-lb; plb=lb/2; pub=ub/2
opts={"display":"off","random_seed":4,"max_fun_evals":40}
keep=[copy.deepcopy(v) for v in (x0,lb,ub,plb,pub)]; okeep=copy.deepcopy(opts)
b=BADS(f,x0,lb,ub,plb,pub,options=opts); r=b.optimize()
print("caller arrays unchanged",all(np.array_equal(a,k) for a,k in zip((x0,lb,ub,plb,pub),keep)),"opts unchanged",opts==okeep)
print("keys==_keys",sorted(r.keys())==sorted(OptimizeResult._keys), [k for k in OptimizeResult._keys if k not in r])
for k in r.keys(): assert (getattr(r,k) is r[k])
try: r["bogus"]=1; print("bogus set accepted")
except ValueError: print("bogus set ValueError")
try: r.bogus; print("bogus attr ok?")
except AttributeError: print("bogus attr AttributeError")
snap={k:copy.deepcopy(r[k]) for k in ("x","x0","fval","func_count","mesh_size")}
b.x[:]=99; b.x0[:]=77; b.u[:]=5
print("copies held", all(np.array_equal(np.asarray(r[k]),np.asarray(snap[k])) for k in snap))
print(r.problem_type,r.target_type,r.random_seed,r.func_count,r.mesh_size,b.mesh_size,r.x0, r.iterations)
b2=BADS(f,np.array([0.,0.]),plausible_lower_bounds=np.array([-1.,-1.]),plausible_upper_bounds=np.array([1.,1.]),options={"display":"off","max_fun_evals":20}); r2=b2.optimize(); print(r2.problem_type, r2.random_seed)
b3=BADS(f,np.array([3.,3.]),lb,ub,plb,pub,non_box_cons=lambda X: np.sum(np.atleast_2d(X)**2,axis=1)<1,options={"display":"off","max_fun_evals":20}); r3=b3.optimize(); print(r3.problem_type)
# --- IterationHistory vs model
rng=np.random.default_rng(0); st=collections.Counter()
for t in range(3000):
    keys=["a","b","c"]; H=IterationHistory(keys); M={k:None for k in keys}
    for step in range(int(rng.integers(1,15))):
        op=rng.choice(["rec","reci","set","badkey","neg","mut"])
        k=str(rng.choice(keys)); it=int(rng.integers(0,6)); v=rng.choice([1,2.5,"s",None],p=[.3,.3,.2,.2]) if rng.random()<0.5 else np.array(rng.integers(0,5,3))
        if isinstance(v,np.str_): v=str(v)
        try:
            if op=="rec":
                H.record(k,v,it)
                if M[k] is None: M[k]=[None]
                while len(M[k])<=it: M[k].append(None)
                M[k][it]=copy.deepcopy(v)
                if isinstance(v,np.ndarray): v[:]=-1   # mutate after storing
            elif op=="reci":
                H.record_iteration({"a":v,"b":it},it)
                for kk,vv in (("a",v),("b",it)):
                    if M[kk] is None: M[kk]=[None]
                    while len(M[kk])<=it: M[kk].append(None)
                    M[kk][it]=copy.deepcopy(vv)
            elif op=="set":
                H[k]=v; M[k]=copy.deepcopy(v)
                if isinstance(v,np.ndarray): v[:]=-7
                if M[k] is not None and not isinstance(M[k],(list,np.ndarray)): # scalar stored; later record would index a scalar -> skip sequences continuing on this key
                    break
                if isinstance(M[k],np.ndarray): M[k]=list(M[k])
            elif op=="badkey":
                try: H.record("zzz",1,0); st["badkey_accepted"]+=1
                except ValueError: pass
                try: H["zzz"]=1; st["badkey_set_accepted"]+=1
                except ValueError: pass
            elif op=="neg":
                try: H.record(k,1,-1); st["neg_accepted"]+=1
                except ValueError: pass
        except Exception as e:
            st["exc_"+type(e).__name__+"_"+op]+=1; break
        for kk in keys:
            h=H[kk]; m=M[kk]
            if m is None:
                if h is not None: st["mismatch_none"]+=1
            else:
                hl=list(h) if isinstance(h,np.ndarray) else h
                ok=len(hl)==len(m) and all((np.array_equal(a,b_) if isinstance(a,np.ndarray) or isinstance(b_,np.ndarray) else a==b_) for a,b_ in zip(hl,m))
                if not ok: st["mismatch"]+=1; st["mm_"+op]+=1
    st["seqs"]+=1
print(dict(st))
