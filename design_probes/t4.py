import numpy as np, warnings, traceback, sys
warnings.filterwarnings("ignore")
from pybads import BADS
D=2
def g(x): return float(np.sum((np.asarray(x)-0.3)**2))
def cons(X):
    X=np.atleast_2d(X); return np.any(np.abs(X*2-np.round(X*2))>1e-9,axis=1)
for seed in range(3):
  try:
    b=BADS(g, np.ones(D)*2.0, -8*np.ones(D), 8*np.ones(D), -4*np.ones(D), 4*np.ones(D), non_box_cons=cons, options={"display":"off","random_seed":seed})
    r=b.optimize(); print("lattice OK", r.func_count, r.x, r.fval, r.message)
  except Exception as e:
    tb=traceback.extract_tb(e.__traceback__); print(type(e).__name__, e, [(t.filename.split('/')[-1],t.lineno) for t in tb][-3:])
