import numpy as np, warnings, logging, sys, collections
warnings.filterwarnings("ignore"); logging.disable(logging.CRITICAL)
from pybads import BADS
import pybads.bads.bads as B
from pybads.function_logger import FunctionLogger
ev=[]; st=collections.Counter(); bad=[]
oc=FunctionLogger.__call__
def call(self,x,record_duplicate_data=True):
    r=oc(self,x,record_duplicate_data); ev.append(("eval",r[0])); return r
FunctionLogger.__call__=call
oi=B.BADS._eval_improvement_
def imp(self,fb,fn,sb,sn,q):
    z=oi(self,fb,fn,sb,sn,q); ev.append(("imp",np.asarray(z,float).ravel().copy())); return z
B.BADS._eval_improvement_=imp
ops=B.BADS._poll_step_
def ps(self,gp):
    k0=int(self.mesh_size_integer); f0=self.fval; suff=float(self.sufficient_improvement); it=self.optim_state["iter"]; lvl=self.optim_state["uncertainty_handling_level"]
    i0=len(ev); r=ops(self,gp); k1=int(self.mesh_size_integer)
    seg=ev[i0:]; imps=[]
    for a,b in zip(seg,seg[1:]):
        if a[0]=="eval" and b[0]=="imp": imps.append(float(b[1][0]))
    det_imps=[float(f0-a[1]) for a in seg if a[0]=="eval"] if lvl==0 else None
    if det_imps is not None and not np.allclose(det_imps,imps,rtol=0,atol=0): st["pairing_mismatch"]+=1
    best=0.0; good=False
    for z in imps:
        if z>best:
            best=z; good = best>suff
    cap=self.options["max_poll_grid_number"]
    if good: exp={min(k0+1,cap)}
    else:
        exp={k0-1}
        if self.options["accelerate_mesh"] and it>self.options["accelerate_mesh_steps"]:
            fb=self.iteration_history.get("fval")[it-self.options["accelerate_mesh_steps"]]
            if fb-self.fval<self.options["tol_fun"]: exp={k0-2}
    st["polls"]+=1; st["succ" if good else "fail"]+=1
    if k1 not in exp: st["bad"]+=1; bad.append((lvl,k0,k1,exp,imps[:4],suff))
    if k1==k0-2: st["quart"]+=1
    return r
B.BADS._poll_step_=ps
rs=np.random.RandomState(0)
det=lambda x: float(50*np.sum(np.abs(np.asarray(x)-1.3)))
ros=lambda x: float(100*(x[1]-x[0]**2)**2+(1-x[0])**2)
noisy=lambda x: float(np.sum((np.asarray(x)-1)**2))+0.3*np.random.randn()
def he(x): return float(np.sum((np.asarray(x)-1)**2))+0.3*np.random.randn(),0.3
for name,fun,base in (("det",det,{}),("ros",ros,{}),("noisy",noisy,{}),("he",he,{"specify_target_noise":True,"uncertainty_handling":True})):
  for seed in range(4):
    for extra in ({}, {"search_n_try":0},{"accelerate_mesh":False},{"complete_poll":True}):
        o={"display":"off","random_seed":seed,"max_fun_evals":100}; o.update(base); o.update(extra)
        try:
            BADS(fun,np.ones(2)*2.,-10*np.ones(2),10*np.ones(2),-5*np.ones(2),5*np.ones(2),options=o).optimize()
        except Exception as e: st["crash"]+=1
print(dict(st)); print(bad[:8])
