import numpy as np, warnings, traceback, sys
warnings.filterwarnings("ignore")
from pybads import BADS
D=2
log=[]
def nf(x):
    y=float(np.sum(np.asarray(x)**2))+0.5*np.random.randn(); log.append((tuple(np.asarray(x).ravel()),y)); return y
def he(x):
    y=float(np.sum(np.asarray(x)**2)); s=0.5+0.1*np.sqrt(y); v=y+s*np.random.randn(); log.append((tuple(np.asarray(x).ravel()),v)); return v, s
for name,fun,opts in (("noisy",nf,{}),("he",he,{"specify_target_noise":True,"uncertainty_handling":True})):
 for seed in range(5):
    log.clear()
    o={"display":"off","random_seed":seed,"max_fun_evals":150}; o.update(opts)
    b=BADS(fun, np.ones(D)*2.0, -10*np.ones(D), 10*np.ones(D), -5*np.ones(D), 5*np.ones(D), options=o)
    r=b.optimize()
    H=b.iteration_history
    bad=0; notev=0
    for i in range(len(H["x"])):
        if H["x"][i] is None: continue
        x=tuple(np.asarray(H["x"][i]).ravel()); yv=H["yval"][i]
        obs=[v for (p,v) in log if np.allclose(p,x,rtol=0,atol=1e-12)]
        if not obs: notev+=1
        elif not (min(obs)-1e-12<=yv<=max(obs)+1e-12): bad+=1
    lastx=np.asarray(H["x"][-1]).ravel()
    print(name,seed,"iters",len(H["x"]),"x-not-evaluated",notev,"yval-mismatch",bad,"x==last",np.allclose(lastx,r.x), "x in hist", any(np.allclose(np.asarray(h).ravel(),r.x) for h in H["x"] if h is not None), "tail at x", all(np.allclose(p,r.x.ravel()) for p,_ in log[-10:]))
