import numpy as np, warnings, traceback, sys
warnings.filterwarnings("ignore")
from pybads import BADS
import pybads.bads.bads as B
# C17: count repeat evaluations in a deterministic run w/ optimum on boundary
calls=[]
def f(x):
    calls.append(tuple(np.asarray(x).ravel().tolist())); return float(np.sum((np.asarray(x)-12)**2))
D=2
b=BADS(f, np.ones(D)*2.0, -10*np.ones(D), 10*np.ones(D), -5*np.ones(D), 5*np.ones(D), options={"display":"off","random_seed":1})
r=b.optimize()
from collections import Counter
c=Counter(calls); print("calls",len(calls),"distinct",len(c), "repeats", [(k,v) for k,v in c.items() if v>1][:5], r.x, r.fval, r.message)
# C09: constraint making most things infeasible: thin feasible set
calls.clear()
def g(x):
    return float(np.sum((np.asarray(x))**2))
cons=lambda X: np.abs(np.atleast_2d(X)[:,0]-np.atleast_2d(X)[:,1])>1e-9   # only the diagonal feasible
try:
    b=BADS(g, np.ones(D)*2.0, -10*np.ones(D), 10*np.ones(D), -5*np.ones(D), 5*np.ones(D), non_box_cons=cons, options={"display":"off","random_seed":1})
    r=b.optimize(); print("thin OK", r.func_count, r.fval, r.message)
except Exception as e:
    traceback.print_exc(limit=-3)
