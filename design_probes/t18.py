import numpy as np, warnings, logging, time
warnings.filterwarnings("ignore"); logging.disable(logging.CRITICAL)
from pybads import BADS
f=lambda x: 0.0
t=time.time(); n=0
for i in range(200):
    try: BADS(f, np.array([0.5]), np.array([0.]), np.array([1.]), np.array([0.2]), np.array([0.8]), options={"display":"off"}); n+=1
    except ValueError: pass
print("ctor ms", (time.time()-t)/200*1000)
# C05 he nfs=1
log=[]
def he(x):
    x=np.asarray(x,float).ravel(); y=float(np.sum(x**2)); s=0.2+0.3*np.sqrt(y); v=y+s*np.random.randn(); log.append((x.copy(),v,s)); return v,s
for seed in range(4):
    log.clear()
    b=BADS(he,np.ones(2)*2.,-10*np.ones(2),10*np.ones(2),-5*np.ones(2),5*np.ones(2),options={"display":"off","random_seed":seed,"specify_target_noise":True,"uncertainty_handling":True,"max_fun_evals":100,"noise_final_samples":1})
    r=b.optimize()
    atx=[(v,s) for (x,v,s) in log if np.array_equal(x,r.x.ravel())]
    print(seed,"yval_vec",r.yval_vec.ravel(),"ysd_vec",r.ysd_vec.ravel(),"obs at x",atx,"fval",r.fval,np.mean(r.yval_vec),"fsd",r.fsd,np.std(r.yval_vec)/np.sqrt(2), "last logged S", b.function_logger.S[b.function_logger.Xn])
