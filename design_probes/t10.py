import numpy as np, warnings, traceback, sys, time, logging
warnings.filterwarnings("ignore")
from pybads import BADS
logging.disable(logging.CRITICAL)
def run(fun, D, x0, seed, opts, pre=None, mid=None):
    calls=[]
    def f(x):
        x=np.asarray(x,float).ravel(); calls.append(x.copy()); return fun(x)
    o={"display":"off","random_seed":seed,"max_fun_evals":60}; o.update(opts)
    if pre: pre()
    b=BADS(f,x0,-10*np.ones(D),10*np.ones(D),-5*np.ones(D),5*np.ones(D),options=o)
    if mid: mid()
    r=b.optimize()
    return np.array(calls), r
det=lambda x: float(np.sum((x-1)**2))
noisy=lambda x: float(np.sum((x-1)**2))+0.3*np.random.randn()
def he(x): return float(np.sum((x-1)**2))+0.3*np.random.randn(), 0.3
def pre1():
    np.random.rand(17)
    BADS(lambda x: float(np.sum(x**2)), np.zeros(4), -np.ones(4)*3, np.ones(4)*3, options={"display":"off","max_fun_evals":30,"random_seed":99}).optimize()
def mid1():
    BADS(lambda x: float(np.sum(x**2)), None, -np.ones(3)*3, np.ones(3)*3, options={"display":"off","max_fun_evals":30, "tol_fun":1e-2})
    np.random.randn(5)
for name,fun,opts in (("det",det,{}),("noisy",noisy,{}),("he",he,{"specify_target_noise":True,"uncertainty_handling":True})):
  for x0 in (np.array([2.,3.]), None):
    a,ra=run(fun,2,x0,5,opts)
    b,rb=run(fun,2,x0,5,opts,pre=pre1,mid=mid1)
    same=a.shape==b.shape and np.array_equal(a,b)
    print(name, "x0" if x0 is not None else "nox0", "same calls",same, "res", np.array_equal(ra.x,rb.x), ra.fval==rb.fval, ra.fsd==rb.fsd, ra.func_count==rb.func_count, ra.message==rb.message, len(a), len(b))
    if not same:
        n=min(len(a),len(b)); d=[i for i in range(n) if not np.array_equal(a[i],b[i])]; print("  first diff idx", d[:3], a[d[0]] if d else None, b[d[0]] if d else None)
