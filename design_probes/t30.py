import numpy as np, warnings, collections, itertools
warnings.filterwarnings("ignore")
from pybads.function_logger import FunctionLogger, contraints_check
from pybads.variable_transformer import VariableTransformer
st=collections.Counter(); ex={}
D=1; lat=[-2.,-1.,0.,1.,2.]
vt=VariableTransformer(1,np.array([[-4.]]),np.array([[4.]]),np.array([[-1.]]),np.array([[1.]]))  # x = u  (plb,pub=-1,1 -> identity)
assert vt.inverse_transf(np.array([[0.5]]))[0,0]==0.5
def mklog(points):
    fl=FunctionLogger(lambda x: 0.0,1,False,0,4,vt)
    for p in points: fl(np.array([p]))
    return fl
cons=lambda X: np.atleast_2d(X)[:,0]>0
for r in range(0,6):
  for logpts in itertools.combinations(lat,r):
    fl=mklog(logpts)
    for L in (1,2,3):
      for cand in itertools.product(lat,repeat=L):
        U=np.array(cand)[:,None]
        for (lb,ub) in ((-2.,2.),(-1.,1.),(0.,2.)):
          for proj in (True,False):
            for c in (None,cons):
                out=contraints_check(U.copy(),np.array([[lb]]),np.array([[ub]]),1.0,fl,proj,c); st["calls"]+=1
                o=out.ravel().tolist()
                if any(v<lb or v>ub for v in o): st["oob"]+=1
                if len(set(o))!=len(o): st["dup"]+=1
                if c is not None and any(v>0 for v in o): st["infeas"]+=1
                src=[min(max(v,lb),ub) for v in cand] if proj else [v for v in cand if lb<=v<=ub]
                if any(v not in src for v in o): st["notsubset"]+=1
                # completeness: every admissible fresh candidate must survive
                adm={v for v in src if (c is None or v<=0)}
                fresh={v for v in adm if v not in logpts}
                if not fresh.issubset(set(o)): st["lost"]+=1; ex.setdefault("lost",(logpts,cand,lb,ub,proj,o))
                if any(v in logpts for v in o): st["revisit"]+=1
print(dict(st)); print(ex)
