import numpy as np, warnings, logging
warnings.filterwarnings("ignore")
from pybads.search.es_search import ESSearchWM
o={"poll_mesh_multiplier":2.0,"es_start":0.25,"n_search_iter":2,"search_acq_fcn":("acq_LCB",None),"es_beta":1}
bad=[];n=0
for mu in range(0,40):
  for lamb in range(1,60):
    try:
        s=ESSearchWM(max(mu,1),lamb,o); m=s._get_selection_idx_mask_(mu,lamb); n+=1
        ll=min(lamb,mu)
        ok=len(m)>=ll and (ll==0 or (m[:ll].min()>=0 and m[:ll].max()<mu)) and np.all(np.diff(m)>=0)
        if not ok: bad.append((mu,lamb,len(m),m[:8].tolist(), int(m.max()) if len(m) else None))
    except Exception as e:
        bad.append((mu,lamb,type(e).__name__,str(e)[:50]))
print(n,len(bad)); print(bad[:20])
s=ESSearchWM(5,5,o); print(s._get_selection_idx_mask_(5,5), s._get_selection_idx_mask_(3,8), s._get_selection_idx_mask_(8,3), s._get_selection_idx_mask_(1,4),s._get_selection_idx_mask_(2048,2048)[:20],len(s._get_selection_idx_mask_(2048,2048)))
