import numpy as np, warnings, collections
warnings.filterwarnings("ignore")
from pybads.variable_transformer import VariableTransformer as VT
rng=np.random.default_rng(0); st=collections.Counter(); ex={}
def gen_coord():
    k=rng.choice(["lin","log","logedge","unb","wide","notlog"])
    if k=="lin":
        lb=rng.uniform(-10,10); w=10**rng.uniform(-3,3); ub=lb+w; plb=lb+rng.uniform(0,0.4)*w; pub=ub-rng.uniform(0,0.4)*w
    elif k=="log":
        lb=10**rng.uniform(-12,0); plb=lb*10**rng.uniform(0,2); pub=plb*10**rng.uniform(1,4); ub=pub*10**rng.uniform(0,2)
    elif k=="logedge":
        lb=10**rng.uniform(-3,0); plb=lb*2; pub=plb*rng.choice([10.0,9.999,10.001]); ub=pub*3
    elif k=="unb":
        lb=-np.inf; ub=np.inf; plb=rng.uniform(-1e3,1e3); pub=plb+10**rng.uniform(-3,4)
    elif k=="wide":
        lb=-10**rng.uniform(3,12); ub=10**rng.uniform(3,12); plb=-10**rng.uniform(-3,2); pub=10**rng.uniform(-3,2)
    else: # positive but < decade, or spanning zero
        lb=rng.choice([0.0,0.5,-1.0]); plb=max(lb,0.6)+rng.uniform(0,1); pub=plb*rng.uniform(1.5,9); ub=pub*2
    return k,lb,plb,pub,ub
for t in range(20000):
    D=int(rng.integers(1,5)); cs=[gen_coord() for _ in range(D)]
    lb=np.array([[c[1] for c in cs]]); plb=np.array([[c[2] for c in cs]]); pub=np.array([[c[3] for c in cs]]); ub=np.array([[c[4] for c in cs]])
    try: v=VT(D,lb,ub,plb,pub)
    except ValueError as e:
        st["refused"]+=1; ex.setdefault("refused",(str(e)[:40],cs)); continue
    st["built"]+=1
    explog=(lb>0)&(ub>0)&(plb>0)&(pub>0)&(pub/plb>=10)
    if not np.array_equal(explog,v.apply_log_t): st["logrule"]+=1; ex.setdefault("logrule",cs)
    if v.apply_log_t.any():
        lp=np.where(v.apply_log_t,np.log(np.where(v.apply_log_t,plb,1.)),plb); lq=np.where(v.apply_log_t,np.log(np.where(v.apply_log_t,pub,np.e)),pub)
    else: lp,lq=plb,pub
    tol=16*np.finfo(float).eps*(np.maximum(np.abs(lp),np.abs(lq))/(0.5*(lq-lp))+1)
    st["pm1_maxratio"]=max(st["pm1_maxratio"],float(np.max(np.maximum(np.abs(v.plb+1),np.abs(v.pub-1))/tol*1000)))
    if np.any(np.abs(v.plb+1)>tol)|np.any(np.abs(v.pub-1)>tol): st["pm1"]+=1; ex.setdefault("pm1",(cs,v.plb,v.pub))
    width=np.where(np.isfinite(ub-lb),ub-lb,pub-plb)
    lo=np.where(np.isfinite(lb),lb,plb-3*(pub-plb)); hi=np.where(np.isfinite(ub),ub,pub+3*(pub-plb))
    # points
    T=np.sort(rng.uniform(0,1,(12,1)),axis=0)
    X=lo+T*(hi-lo)
    islog=v.apply_log_t
    Xg=np.where(islog,np.exp(np.log(np.where(islog,lo,1))+T*(np.log(np.where(islog,hi,np.e))-np.log(np.where(islog,lo,1)))),X)
    P=np.vstack([X,Xg,lo,hi,plb,pub]); P=np.sort(P,axis=0)
    U=v(P); R=v.inverse_transf(U)
    err=np.abs(R-P)/width
    if np.nanmax(err)>1e-9: st["roundtrip"]+=1; ex.setdefault("roundtrip",(cs,float(np.nanmax(err))))
    if np.any(np.diff(U,axis=0)<0): st["mono_fwd"]+=1; ex.setdefault("mono_fwd",cs)
    if np.any(np.diff(R,axis=0)<0): st["mono_inv"]+=1; ex.setdefault("mono_inv",cs)
    if np.any(U<v.lb)|np.any(U>v.ub): st["fwd_oob"]+=1
    # outside inputs
    eps=1e-9*width
    O=np.vstack([lo-eps,hi+eps,np.nextafter(lo,-np.inf),np.nextafter(hi,np.inf)])
    UO=v(O)
    if np.any(np.isnan(UO))|np.any(UO<v.lb)|np.any(UO>v.ub): st["fwd_oob_out"]+=1; ex.setdefault("fwd_oob_out",(cs,UO,v.lb,v.ub))
    UU=np.vstack([v.lb-1e-9,v.ub+1e-9,np.where(np.isfinite(v.lb),v.lb,-50.),np.where(np.isfinite(v.ub),v.ub,50.)])
    UU=np.where(np.isfinite(UU),UU,0.0)
    RO=v.inverse_transf(UU)
    if np.any(np.isnan(RO))|np.any(RO<lb)|np.any(RO>ub): st["inv_oob_out"]+=1; ex.setdefault("inv_oob_out",(cs,RO))
print(dict(st))
for k,vv in ex.items(): print(k,vv)
