import numpy as np, warnings, logging, sys, collections, configparser, os
warnings.filterwarnings("ignore"); logging.disable(logging.CRITICAL)
from pybads import BADS
import pybads
base=os.path.dirname(pybads.__file__)+"/bads/option_configs/"
def ref_defaults(D, user):
    class O(dict):
        pass
    o=O(user)
    for fn in ("basic_bads_options.ini","advanced_bads_options.ini"):
        cp=configparser.ConfigParser(comment_prefixes="",allow_no_value=True); cp.optionxform=str; cp.read(base+fn)
        for sec in cp.sections():
            for k,v in cp.items(sec):
                if "#" in k: continue
                if k in user: continue
                o[k]=eval(v,{"np":np,"D":D,"self":o})
    return o
def same(a,b):
    if callable(a) and callable(b): return True
    try:
        if isinstance(a,np.ndarray) or isinstance(b,np.ndarray): return np.array_equal(np.asarray(a),np.asarray(b))
        return a==b and type(a)==type(b)
    except Exception: return False
f=lambda x: 0.0
for D in (1,2,5):
    b=BADS(f,np.zeros(D)+0.5,np.zeros(D),np.ones(D),np.zeros(D)+0.2,np.ones(D)-0.2,options={"display":"off","tol_fun":1e-2})
    r=ref_defaults(D,{"display":"off","tol_fun":1e-2})
    names=[k for k in b.options.keys() if k!="useroptions"]
    diff=[(k,b.options[k],r.get(k,"<missing>")) for k in names if not same(b.options[k],r.get(k,"<missing>"))]
    print(D,len(names),"diff",diff, "missing in bads", [k for k in r if k not in b.options])
print(b.options["tol_noise"], np.spacing(1.0)*1e-2, b.options["hedge_beta"])
# unknown names
for nm in ("foo","Display","max_fun_eval","fooD","bar","tolmesh"):
    try: BADS(f,np.zeros(2)+0.5,np.zeros(2),np.ones(2),options={nm:1}); print(nm,"accepted")
    except ValueError as e: print(nm,"ValueError")
    except Exception as e: print(nm,type(e).__name__,e)
