import numpy as np, warnings, traceback, sys, time
warnings.filterwarnings("ignore")
from pybads import BADS
rng=np.random.default_rng(int(sys.argv[1]) if len(sys.argv)>1 else 0)
def mk(D):
    kind=rng.choice(["lin","log","unb","tight","mixedlog"])
    if kind=="lin":
        lb=rng.uniform(-10,0,D); ub=lb+rng.uniform(1,20,D); plb=lb+0.2*(ub-lb); pub=ub-0.2*(ub-lb)
    elif kind=="log":
        lb=10**rng.uniform(-4,-1,D); ub=lb*10**rng.uniform(2,5,D); plb=lb*2; pub=ub/2
    elif kind=="unb":
        lb=np.full(D,-np.inf); ub=np.full(D,np.inf); plb=rng.uniform(-5,0,D); pub=plb+rng.uniform(1,10,D)
    elif kind=="tight":
        lb=rng.uniform(-10,0,D); ub=lb+rng.uniform(1,20,D); plb=lb.copy(); pub=ub.copy()
    else:
        lb=10**rng.uniform(-4,-1,D); ub=lb*10**rng.uniform(2,5,D); plb=lb*2; pub=ub/2
        lb[0]=-3; ub[0]=4; plb[0]=-1; pub[0]=2
    return kind,lb,ub,plb,pub
for it in range(12):
    D=int(rng.integers(1,4)); kind,lb,ub,plb,pub=mk(D)
    where=rng.choice(["in","out","onb"])
    if where=="in": opt=plb+rng.uniform(0.1,0.9,D)*(pub-plb)
    elif where=="out": opt=np.where(np.isfinite(ub),ub+ (np.where(np.isfinite(ub-lb),ub-lb,1.0)),pub+5)
    else: opt=np.where(np.isfinite(ub),ub,pub)
    x0mode=rng.choice(["none","in","onlb"])
    if x0mode=="none": x0=None
    elif x0mode=="in": x0=plb+rng.uniform(0,1,D)*(pub-plb)
    else: x0=np.where(np.isfinite(lb),lb,plb)
    calls=[]
    def f(x):
        x=np.asarray(x,float).ravel(); calls.append(x.copy()); return float(np.sum(((x-opt)/np.where(np.isfinite(ub-lb),ub-lb,10.))**2))
    seed=int(rng.integers(0,1000)); mfe=int(rng.choice([30,60,100]))
    t=time.time()
    try:
        b=BADS(f,x0,lb,ub,plb,pub,options={"display":"off","random_seed":seed,"max_fun_evals":mfe})
        r=b.optimize()
    except Exception as e:
        tb=traceback.extract_tb(e.__traceback__); print(it,kind,D,where,x0mode,type(e).__name__,str(e)[:90],[(t_.filename.split('/')[-1],t_.lineno) for t_ in tb][-2:]); continue
    C=np.array(calls); viol=np.sum((C<lb)|(C>ub))
    ys=[float(np.sum(((c-opt)/np.where(np.isfinite(ub-lb),ub-lb,10.))**2)) for c in calls]
    best=min(ys); inlog=any(np.array_equal(c,r.x.ravel()) for c in calls)
    print(it,kind,D,where,x0mode,"mfe",mfe,"calls",len(calls),r.func_count,"oob",viol,"x_in_calls",inlog,"fval==best",r.fval==best, r.fval-best, "logT",b.var_transf.apply_log_t.ravel().astype(int), round(time.time()-t,1), r.message[-30:])
