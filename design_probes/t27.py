import numpy as np, warnings, collections, itertools, sys
warnings.filterwarnings("ignore")
import pybads.poll  # package
M=sys.modules["pybads.poll.poll_mads_2n"]
class Script:
    def __init__(s,tri,signs,perm): s.tri=tri; s.signs=signs; s.perm=perm; s.calls=[]
    def randint(s,lo,hi=None,size=None):
        s.calls.append(("randint",lo,hi,size))
        if isinstance(size,tuple):   # (D,D) matrix, values in [lo,hi)
            D=size[0]; m=np.full(size,int(lo)); it=iter(s.tri)
            for i in range(D):
                for j in range(i): m[i,j]=next(it)
            return m
        return np.array(s.signs)
    def permutation(s,x):
        s.calls.append(("perm",np.shape(x))); return np.asarray(x)[list(s.perm)]
st=collections.Counter()
for D in (1,2,3):
  for n in (1,2,4):
    ps=np.ones(D)*rng if (rng:=1.0) else None
    pscale=np.array([0.5,2.0,1.25])[:D]
    vals=list(range(1,2*n))   # randint(1,2n) values
    ntri=D*(D-1)//2
    for tri in itertools.product(vals,repeat=ntri):
      for signs in itertools.product((1,2),repeat=D):
        for perm in itertools.permutations(range(D)):
            sc=Script(tri,signs,perm); M.rnd=sc
            Bn=M.poll_mads_2n(D,pscale,1.0*n,1.0)   # search_mesh/mesh = n
            st["cases"]+=1
            # protocol
            if [c[0] for c in sc.calls]!=["randint","randint","perm"]: st["protocol"]+=1
            Bi=Bn*pscale
            if Bn.shape!=(2*D,D): st["shape"]+=1; continue
            if not np.allclose(Bi,np.round(Bi),atol=1e-12): st["nonint"]+=1
            Bi=np.round(Bi)
            if np.max(np.abs(Bi))>n: st["toolarge"]+=1
            if abs(np.linalg.det(Bi[:D]))<0.5: st["singular"]+=1
            if not np.array_equal(Bi[D:],-Bi[:D]): st["notneg"]+=1
            if n==1:
                rows={tuple(r) for r in Bi}
                exp={tuple(s_*np.eye(D)[i]) for i in range(D) for s_ in (1,-1)}
                if rows!=exp: st["notcoord"]+=1
import numpy.random as nr; M.rnd=nr
print(dict(st))
