import numpy as np, warnings, traceback, sys, logging
warnings.filterwarnings("ignore"); logging.disable(logging.CRITICAL)
from pybads import BADS
D=2
def nf(x): return float(np.sum(np.asarray(x)**2))+0.3*np.random.randn()
def det(x): return float(np.sum(np.asarray(x)**2))
n=[0]
for name,fun in (("noisy",nf),("det",det)):
 for opts in ({"max_fun_evals":25},{"max_iter":1},{"max_iter":2},{"max_fun_evals":1},{"max_fun_evals":2},{"max_fun_evals":3},{"max_fun_evals":40,"noise_final_samples":30},{"tol_mesh":0.5},{"complete_poll":True,"max_fun_evals":60},{"accelerate_mesh":False,"max_fun_evals":60}):
  n[0]=0
  def f(x): n[0]+=1; return fun(x)
  try:
    o={"display":"off","random_seed":2}; o.update(opts)
    b=BADS(f, np.ones(D)*2.0, -10*np.ones(D), 10*np.ones(D), -5*np.ones(D), 5*np.ones(D), options=o)
    r=b.optimize(); print(name,opts, "calls",n[0], r.func_count, "iters",r.iterations, r.fval, None if r.yval_vec is None else np.shape(r.yval_vec), r.message[-45:])
  except Exception as e:
    tb=traceback.extract_tb(e.__traceback__); print(name,opts, "calls",n[0], type(e).__name__, str(e)[:80], [(t.filename.split('/')[-1],t.lineno) for t in tb][-3:])
