import numpy as np, warnings, logging, sys
warnings.filterwarnings("ignore"); logging.disable(logging.CRITICAL)
from pybads import BADS
import pybads.bads.bads as B
from pybads.function_logger import FunctionLogger
ev=[]
oc=FunctionLogger.__call__
def call(self,x,record_duplicate_data=True):
    ev.append(("eval",np.array(x,float).ravel().copy())); return oc(self,x,record_duplicate_data)
FunctionLogger.__call__=call
op=B.poll_mads_2n
def pm(*a):
    r=op(*a); ev.append(("basis",r.copy(),np.array(a[1],float).copy(),a[2],a[3])); return r
B.poll_mads_2n=pm
ops=B.BADS._poll_step_
stats={"polls":0,"evals":0,"bad":0,"mesh_bad":0,"succ":0,"fail":0,"quart":0}
def ps(self,gp):
    k0=self.mesh_size_integer; u0=self.u.copy(); f0=self.fval; ms=self.mesh_size; suff=self.sufficient_improvement
    i0=len(ev); r=ops(self,gp); k1=self.mesh_size_integer
    stats["polls"]+=1
    basis=[e for e in ev[i0:] if e[0]=="basis"]; evals=[e[1] for e in ev[i0:] if e[0]=="eval"]
    stats["evals"]+=len(evals)
    if basis:
        Bm=basis[0][1]*basis[0][2]   # integer directions
        assert np.allclose(Bm,np.round(Bm),atol=1e-9), Bm
        D=self.D; Dm=Bm[:D]; assert abs(np.linalg.det(Dm))>0.5 and np.allclose(Bm[D:],-Dm)
        used=set()
        for u in evals:
            d=(u-u0)/ms; j=[i for i in range(2*D) if np.allclose(d,Bm[i],atol=1e-9)]
            if not j or j[0] in used: stats["bad"]+=1
            else: used.add(j[0])
    if k1>k0: stats["succ"]+=1
    elif k1==k0-1: stats["fail"]+=1
    elif k1==k0-2: stats["quart"]+=1
    elif k1==k0 and k0==0: stats["succ"]+=1
    else: stats["mesh_bad"]+=1
    return r
B.BADS._poll_step_=ps
for seed in range(4):
  for D in (1,2,3):
    f=lambda x: float(50*np.sum(np.abs(np.asarray(x)-1.3)))
    b=BADS(f, np.ones(D)*2.0, -10*np.ones(D), 10*np.ones(D), -5*np.ones(D), 5*np.ones(D), options={"display":"off","random_seed":seed,"max_fun_evals":80,"search_n_try":0})
    r=b.optimize()
print(stats)
