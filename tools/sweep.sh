#!/bin/bash
# usage: tools/sweep.sh <tier> "<seeds>" [props...]   -- runs checks, prints one line per run
tier=$1; seeds=$2; shift 2
props=${@:-C01 C02 C03 C04 C05 C06 C07 C08 C09 C10 C11 C12 C13 C14 C15 C16 C17 C18 C19 C20}
for s in $seeds; do
  for p in $props; do
    out=$(VERIF_SEED=$s PYTHONHASHSEED=0 ./check $p $tier 2>&1); rc=$?
    echo "== $p $tier seed=$s rc=$rc :: $(echo "$out" | grep -E '^\[|VIOLATION|INCONCLUSIVE' | head -4 | tr '\n' ' ' | cut -c1-400)"
    if [ $rc -ne 0 ]; then echo "$out" | grep -A1 -E 'VIOLATION|INCONCLUSIVE' | head -12; fi
  done
done
