"""tools/mkrefactortask.py [R7 R8 ...]: scratch worktrees /tmp/rf_<k> with the task text for behaviour-preserving refactoring
agents (negative controls)."""
import sys, subprocess
areas={
"R1":("pybads/bads/bads.py: the poll step `_poll_step_` and the helpers it uses (`_eval_improvement_`, `_update_incumbent_`, `_check_mesh_overflow_`)","extract parts of the long method into new private helper methods, rename locals, reorder independent statements, replace index arithmetic by equivalent forms, change how intermediate values are stored (e.g. tuples instead of separate variables)"),
"R2":("pybads/search/es_search.py and pybads/search/search_hedge.py","restructure the generation loop (e.g. split into helper methods, pre-allocate differently, compute the acquisition through a small private wrapper method, merge/split the candidate bookkeeping arrays), restructure the hedge probability computation into a helper"),
"R3":("pybads/function_logger/function_logger.py and pybads/function_logger/constraints_check.py","restructure `_record` into smaller private methods, restructure `__call__` validation into a helper, rewrite `_expand_arrays` with a loop over attribute names, rewrite the candidate filter with equivalent numpy operations / early returns"),
"R4":("pybads/bads/gaussian_process_train.py","split `local_gp_fitting` into helpers (prior update / refit / length-scale update / posterior update), restructure `_robust_gp_fit_`'s retry loop, restructure `get_grid_search_neighbors` with equivalent numpy code (e.g. argpartition+sort giving the same result, or explicit loops)"),
"R5":("pybads/bads/bads.py: `__init__`, `_bounds_check_`, `_init_optim_state_`, `_init_mesh_`, `_init_optimization_` and the main loop of `optimize()` (not the poll/search steps)","extract helper methods, rename locals, reorder independent checks only where the observable behaviour (which error is raised for which input, every computed value) stays identical, restructure the termination tests, restructure the final re-sampling block"),
"R6":("pybads/variable_transformer/variables_transformer.py, pybads/bads/options.py, pybads/bads/optimize_result.py, pybads/utils/iteration_history.py","turn the lambdas of the transformer into methods, restructure option loading into helpers, restructure result construction, while keeping every public attribute and behaviour identical"),
}
areas.update({
"R7":("pybads/bads/gaussian_process_train.py (second round, on the current code)","split `local_gp_fitting` into helpers (prior update / refit / length-scale update / posterior update), restructure `_robust_gp_fit_`'s retry loop into smaller functions, rewrite `get_grid_search_neighbors` and `add_and_update_gp` with equivalent numpy code"),
"R8":("pybads/bads/bads.py: `__init__`, `_bounds_check_`, `_init_optim_state_`, `_init_mesh_`, `_init_optimization_`, the main loop of `optimize()`, the final re-sampling block and `_search_step_` (second round, on the current code)","extract helper methods, rename locals, restructure the termination tests, restructure the final re-sampling block and the search step into helpers, pass values through small dataclasses / tuples instead of loose locals"),
"R9":("pybads/poll/poll_mads_2n.py, pybads/init_functions/init_sobol.py, pybads/acquisition_functions/acq_fcn_lcb.py, pybads/utils/*.py, pybads/bads/options.py","rewrite the generators with equivalent numpy code drawing the SAME random numbers in the same order, add private helpers with extra keyword arguments (with defaults), restructure option loading"),
})
only = set(sys.argv[1:])
for k,(area,how) in areas.items():
    if only and k not in only:
        continue
    d=f"/tmp/rf_{k}"
    subprocess.run(["git","-C","/repo","worktree","add","-q",d,"HEAD"])
    open(d+"/REFACTOR_TASK.md","w").write(f"""# Task: a behaviour-preserving refactoring

You are working in a scratch git worktree of the Python repository acerbilab/pybads (Bayesian Adaptive Direct Search,
a black-box optimizer) at `{d}`.  Work ONLY inside `{d}`.  Never use `git stash` (the stash is shared with other
people's worktrees).  There is no network.

Interpreter: `/venv/bin/python`.  ALWAYS run as `cd {d} && PYTHONPATH={d} OMP_NUM_THREADS=1 /venv/bin/python ...`
and verify once with `-c "import pybads; print(pybads.__file__)"` that the worktree copy is imported.

## What to do

Refactor this area of the code substantially, WITHOUT changing behaviour:

> {area}

Kinds of change wanted: {how}.

Rules:
1. The observable behaviour must be IDENTICAL: same exceptions for the same inputs, same sequence of points at which the
   target is evaluated, bit-identical results, same values in `iteration_history`, `function_logger`, `options`,
   `OptimizeResult`.  Do not change the public API, the names of the classes, or the names/signatures of the functions
   and methods that other modules import or call (you may ADD new private helpers and change function bodies freely).
   Do not change how many random numbers are drawn or in which order.
2. The existing test suite must pass:
   `cd {d} && PYTHONPATH={d} OMP_NUM_THREADS=1 /venv/bin/python -m pytest -q -p no:cacheprovider --timeout=900`
   (~20-40 s; `test_he_noisy_sphere_opt` is known to be flaky).
3. Prove equivalence to yourself: write `REFACTOR/equiv.py` which runs >= 12 seeded optimisations covering deterministic,
   auto-detected-noise, declared-noise and user-specified-noise (`specify_target_noise=True`, target returns (value, sd))
   targets, with and without a `non_box_cons`, linear and log-scaled bounds (e.g. lb=0.01, plb=0.1, pub=10, ub=100),
   `max_fun_evals` between 40 and 150, each with `options['random_seed']` set; it records the full list of evaluated points
   and returned values plus x/fval/fsd/func_count/message and prints a SHA-256 digest over all of it.  Run it on the
   ORIGINAL code first (save the digest), then after your refactoring: the digests must be equal.  (To get the original:
   `git diff -- pybads > /tmp/{k}.diff; git checkout -- pybads; ...; git apply /tmp/{k}.diff`.)
4. Make the refactoring REAL (at least ~60 changed lines), not cosmetic whitespace.

## Deliverables (in `{d}/REFACTOR/`)

- `patch.diff` : `git diff -- pybads`
- `equiv.py`, and `digests.txt` with the digest before and after
- `notes.md`   : what you restructured (bullet list)

Leave the refactoring applied in the worktree.  Reply with a short summary.
""")
    print(k)
