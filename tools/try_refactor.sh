#!/bin/bash
# usage: tools/try_refactor.sh <worktree> [props...]  -- runs quick checks against a behaviour-preserving refactoring
wt=$1; shift
props=${@:-C01 C02 C03 C04 C05 C06 C07 C08 C09 C10 C11 C12 C13 C14 C15 C16 C17 C18 C19 C20}
cd /verif
for p in $props; do
  out=$(VERIF_REPO=$wt ./check $p quick 2>&1); rc=$?
  echo "$p rc=$rc $(echo "$out" | grep -E '^\[|INCONCLUSIVE' | head -2 | tr '\n' ' ' | cut -c1-260)"
  if [ $rc -eq 1 ]; then echo "$out" | grep "key=" | head -3 | cut -c1-300; fi
done
