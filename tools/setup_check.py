#!/venv/bin/python
"""MANIFEST.setup_cmd: byte-compile the framework and run the environment self-check (offline)."""
import compileall
import os
import subprocess
import sys

HERE = os.path.dirname(os.path.dirname(os.path.abspath(__file__)))
sys.path.insert(0, HERE)
ok = compileall.compile_dir(os.path.join(HERE, "vlib"), quiet=1, force=True)
from vlib import env

code = "from vlib import env; p=env.setup_worker(); import numpy, scipy, gpyreg, jsonschema; print('pybads from', p.__file__)"
r = subprocess.run([env.PY, "-c", code], cwd=HERE, env=env.child_env(), capture_output=True, text=True)
print(r.stdout.strip(), r.stderr.strip()[-500:])
sys.exit(0 if (ok and r.returncode == 0) else 1)
