#!/bin/bash
# usage: tools/try_mutant.sh <worktree> <PROP> [more props...]
# confirms a seeded change (tests pass, demo fails with / passes without), then runs the
# property's quick check against the worktree (VERIF_REPO) and reports whether it fires.
wt=$1; shift
cd $wt || exit 9
export OMP_NUM_THREADS=1 PYTHONPATH=$wt
# (no `git stash`: the stash stack is shared by all worktrees of a repository, and other agents may be using it)
git checkout -q -- pybads && git apply MUTANT/patch.diff || { echo "agent patch does not apply to a clean tree"; exit 8; }
echo "--- patch:"; git diff --stat -- pybads | tail -3
[ -f MUTANT/patch.diff ] || { echo "no patch.diff"; }
echo "--- suite with change:"; timeout 1200 /venv/bin/python -m pytest -q -p no:cacheprovider --timeout=900 2>&1 | tail -1
echo "--- demo with change (expect exit 1):"; timeout 600 /venv/bin/python MUTANT/demo.py > /tmp/demo_with.$$ 2>&1; echo "exit=$?"; tail -3 /tmp/demo_with.$$
git checkout -q -- pybads
echo "--- demo without change (expect exit 0):"; timeout 600 /venv/bin/python MUTANT/demo.py > /tmp/demo_wo.$$ 2>&1; echo "exit=$?"; tail -2 /tmp/demo_wo.$$
git apply MUTANT/patch.diff
rm -f /tmp/demo_with.$$ /tmp/demo_wo.$$
cd /verif
for p in "$@"; do
  echo "--- check $p quick against the changed tree:"
  VERIF_REPO=$wt ./check $p quick 2>&1 | grep -E "^\[|VIOLATION|INCONCLUSIVE|key=" | cut -c1-300 | head -8
done
