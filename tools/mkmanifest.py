#!/usr/bin/env python3
"""Regenerate /verif/MANIFEST.json from the table below (kept valid at all times)."""
import json
import os
import sys

HERE = os.path.dirname(os.path.dirname(os.path.abspath(__file__)))
sys.path.insert(0, HERE)
from tools.checktable import CHECKS, NOT_APPLICABLE, HOOK_COMMITS  # noqa

props = [json.loads(l)["id"] for l in open(os.path.join(HERE, "properties.jsonl"))]
checks = []
for pid in props:
    if pid not in CHECKS:
        continue
    c = CHECKS[pid]
    checks.append({
        "property_id": pid,
        "quick_cmd": f"./check {pid} quick",
        "thorough_cmd": f"./check {pid} thorough",
        "evidence_file": f"evidence/{pid}.json",
        "replay_cmd_template": f"./check {pid} quick --replay {{path}}",
        "engine": "runmon",
        "level_claimed": {"category": c["level"], "text": c["text"], "design_ref": f"DESIGN.md §3 {pid}"},
        "level_note": c["note"],
        "technique": c["technique"],
    })
na = [{"property_id": p, "reason": NOT_APPLICABLE.get(p, "check not built yet in this session (runtime monitoring is applicable; see DESIGN.md)")}
      for p in props if p not in CHECKS]
man = {
    "version": 1,
    "setup_cmd": "/venv/bin/python tools/setup_check.py",
    "hooks": {
        "guard": "PYBADS_VERIF",
        "enable": "PYBADS_VERIF=1 in the environment of every worker process (vlib/env.py); pure Python, so 'build' = fresh interpreter importing /repo",
        "baseline_off_cmd": "cd /repo && env -u PYBADS_VERIF /venv/bin/python -m pytest -ra -q -p no:cacheprovider --timeout=900 --continue-on-collection-errors",
        "source_commits": HOOK_COMMITS,
        "add_only": True,
    },
    "engines": [{"name": "runmon", "path": "vlib/", "serves_properties": sorted(CHECKS),
                 "kind_free_text": "runtime monitoring: seam wrappers + guarded loop probe on the real pybads, reference-model and trace oracles, fault injection, parallel seeded workloads"}],
    "checks": checks,
    "notes": "All checks run the real code from /repo's working tree in fresh worker interpreters (PYTHONPATH=/repo, import location asserted). exit 0 held / 1 VIOLATION / 2 INCONCLUSIVE.",
    "not_applicable": na,
}
json.dump(man, open(os.path.join(HERE, "MANIFEST.json"), "w"), indent=1)
try:
    import jsonschema
    jsonschema.validate(man, json.load(open("/root/.vp/MANIFEST.schema.json")))
    print("MANIFEST.json valid;", len(checks), "checks,", len(na), "not claimed")
except ImportError:
    print("written (jsonschema not available for validation)")
