"""tools/mkmutanttask.py <ids,comma> <variant-letter> [focus]: create /tmp/wt_<id><variant> worktrees of /repo with the
task text given to an independent sub-agent (property text only; nothing from /verif)."""
import json, subprocess, sys

FOCUS = {
"optim": """## Focus for this task

Your change must look like a well-meant PERFORMANCE or CLEAN-UP change: a cache / memoisation that can go stale, a
vectorisation that treats an edge shape differently, an early exit or short-circuit that skips work which is sometimes
needed, hoisting a computation out of a loop although one input changes inside it, replacing a copy by a view, replacing
a stable operation by a faster unstable one, de-duplicating two code paths that differ in one detail.  The change should
give bit-identical results in typical runs and differ only when the specific circumstance arises.

""",
"leak": """## Focus for this task

Your change must make STATE LEAK between optimisations that run in the same Python process: a module-level or
class-level cache / memo / registry, a mutable default argument, a class attribute used as instance state, an object
that is stored by reference and later mutated (user's arrays, option dicts, callables' attributes), state that survives
on an object between two `optimize()` calls or between two BADS objects.  A single optimisation in a fresh process must
behave exactly (bit-identically) like the original; the property must break only when some EARLIER activity in the same
process happened (another BADS object built or run - of the same or a different dimension, with the same or different
bounds / options / target / constraint objects - or an earlier optimize() on the same object).  Typical scripts that
would hit it: multi-start loops, a short pilot run followed by the real run, re-running with re-scaled plausible
bounds, parameter sweeps over options.

""",
"option": """## Focus for this task

Your change must be INVISIBLE under default options and manifest only when the user sets ONE specific documented option
(from pybads/bads/option_configs/basic_bads_options.ini or advanced_bads_options.ini) to a valid non-default value -
a boolean flipped, or a number moderately different from its default (e.g. half or twice the default).  Pick an option
that is actually read by the code path you change (not one of the unused / unsupported ones such as acq_hedge, fit_lik,
warp_func, gp_samples, stobads, plot, restarts).  With every option at its default the changed code must behave exactly
(bit-identically) like the original.

""",
"twofactor": """## Focus for this task

Your change must need TWO circumstances AT THE SAME TIME to manifest, each of which alone leaves behaviour exactly
(bit-identically) as in the original: for example (a specific documented option set to a valid non-default value) AND
(a particular noise mode, a log-scaled or unbounded variable, a non-box constraint, D = 1 or D >= 4, x0 omitted, a point
on a bound, a repeated observation, an empty search set, a failed GP fit).  Avoid the unused / unsupported options
(acq_hedge, fit_lik, warp_func, gp_samples, stobads, plot, restarts).  Show in your demo that each circumstance alone is
harmless and that only the combination breaks the property.

""",
"shape": """## Focus for this task

Your change must be a SHAPE / DTYPE / CONTAINER-TYPE slip: something that behaves identically for the usual
(1, D) float64 ndarray inputs and float return values, and differs only for another VALID spelling of the same data -
1-D arrays, Python lists / tuples / scalars, integer dtype, float32, 0-d arrays, numpy scalar vs Python float return
values, (value, sd) given as a list-like, D = 1 given as plain numbers, a boolean vs float constraint return, an
(N,) vs (N, 1) column.  The property must break for such a spelling while the canonical spelling stays bit-identical.

""",
"subtle": """## Focus for this task

Dozens of regressions have already been seeded for this property (single-site slips, history-dependent changes, caches,
state leaks, option-dependent and numerical/boundary slips, dtype/shape slips) and nearly all were detected by an
extensive monitoring suite that runs thousands of randomized optimisations with every option varied, all noise modes,
constraints, bound geometries, fault injection and process history.  Your job is to find a change that such a suite is
MOST LIKELY TO MISS: think about which circumstances randomized workloads reach only with negligible probability, or
which consequences are invisible unless one looks at exactly the right quantity.  It must still be a clear violation of
the property as stated (not a matter of interpretation) and your demo must show it deterministically.

""",
"numeric": """## Focus for this task

Your change must be a NUMERICAL / BOUNDARY slip: a strict comparison turned non-strict (or the reverse), a tolerance
scaled wrongly, float equality where a tolerance is needed (or the reverse), rounding in the wrong direction, an
off-by-one-ulp or off-by-one-mesh-step, integer vs float division, a sign error that cancels in the symmetric case,
a wrong axis in a reduction that gives the same result for square / one-row inputs.  It must give identical results in
typical runs and differ only on ties, exact boundaries, degenerate shapes or extreme magnitudes.

""",
"unusual": """## Focus for this task

YOUR change must need an UNUSUAL BUT VALID INPUT OR OPTION to manifest - something in the corner of the documented
input space that typical runs and typical tests never use (D >= 4 or D = 1 as Python scalars; unbounded variables;
plausible bounds or x0 omitted; x0 on a bound; log-scaled variables; non-default options; targets returning numpy
scalars / 0-d / (1,) arrays).  With ordinary inputs and default options the changed code must behave exactly like the
original.

""",
}
props={json.loads(l)['id']:json.loads(l) for l in open('/verif/properties.jsonl')}
variant = sys.argv[2] if len(sys.argv)>2 else ""
for pid in sys.argv[1].split(','):
    p=props[pid]
    d=f"/tmp/wt_{pid}{variant}"
    txt=f"""# Task: seed a realistic regression that breaks one semantic property

You are working in a scratch git worktree of the Python repository acerbilab/pybads (a Python port of
Bayesian Adaptive Direct Search, a black-box optimizer) at `{d}`.  Work ONLY inside `{d}`.

Interpreter: `/venv/bin/python` (numpy, scipy, gpyreg, pytest installed).  ALWAYS run python as
`cd {d} && PYTHONPATH={d} OMP_NUM_THREADS=1 /venv/bin/python ...` and verify once with
`-c "import pybads; print(pybads.__file__)"` that the worktree copy (under {d}) is imported, not another checkout.
There is no network.

## The property (must hold for the library)

**{p['id']} - {p['title']}**

{p['statement']}

Quantified over: {p['quantifier']['text']}

Code anchors (where the mechanism lives): {', '.join(p['anchors']['files'])}
Mechanisms: {'; '.join(m['name']+' ('+m['where']+')' for m in p['anchors']['mechanism'])}

## What to do

Make a SMALL change to the library source under `{d}/pybads` (not to tests, not to the option .ini defaults
unless that is the natural place) that BREAKS this property, such that:

1. the package still imports and the existing test suite still passes:
   `cd {d} && PYTHONPATH={d} OMP_NUM_THREADS=1 /venv/bin/python -m pytest -q -p no:cacheprovider --timeout=900`
   (takes ~20-40 s; the single test `test_he_noisy_sphere_opt` is known to be flaky - a failure of only that test may be ignored);
2. the break needs something SPECIFIC to manifest - a particular multi-step sequence of operations, an unusual but
   valid input or option value, a rare internal path (e.g. a particular noise mode, a bound geometry, a repeated
   point, a failed fit, a particular position in the run), or two cooperating code sites that each look fine alone.
   It must NOT be something that ordinary default use (e.g. the README example) would expose immediately as a crash
   or an obviously wrong answer;
3. it looks like a realistic regression a developer could plausibly introduce (off-by-one, wrong comparison operator,
   dropped clamp/copy, reused variable, stale cache, wrong index, refactoring slip), not sabotage.

## Deliverables (inside `{d}/MUTANT/`)

- `patch.diff` : output of `git diff` for your source change only (must apply with `git apply` to a clean checkout of this commit).
- `demo.py`    : a standalone, deterministic (fixed seeds) script that exits 0 when the property holds and exits 1
                 (printing what went wrong) when it is violated.  It must exit 1 WITH your change and exit 0 on the ORIGINAL
                 code - verify both (NEVER use `git stash` - the stash stack is shared; use `git diff -- pybads > MUTANT/patch.diff; git checkout -- pybads` and re-apply with `git apply MUTANT/patch.diff`).  Keep its runtime under ~2 minutes.
                 It should run as `cd {d} && PYTHONPATH={d} OMP_NUM_THREADS=1 /venv/bin/python MUTANT/demo.py`.
- `meta.json`  : {{"property": "{p['id']}", "summary": "...", "needs": "what is needed for the break to manifest",
                  "files": ["..."], "how_verified": "commands you ran and what they printed"}}

Leave the change APPLIED in the worktree when you finish.  Do not read or write anything outside `{d}`
(in particular do not look at /verif).  Reply with a 5-10 line summary: what you changed, what is needed to trigger it,
and the test-suite / demo results you observed.
"""
    focus = FOCUS.get(sys.argv[3] if len(sys.argv) > 3 else "", "")
    txt = txt.replace("## Deliverables", focus + "## Deliverables", 1)
    subprocess.run(["git", "-C", "/repo", "worktree", "add", "-q", d, "HEAD"])
    open(f"{d}/MUTANT_TASK.md","w").write(txt)
    print("wrote",d)
