HOOK_COMMITS = ["f1b8320"]
NOT_APPLICABLE = {}
NOTE_RUN = ("Trusted base: CPython, numpy/scipy/gpyreg as installed, the boundary wrappers and seam patches of vlib/runmon.py. "
            "Decides only the executions produced by the seeded workload; a clean run is 'held on what was observed'.")
CHECKS = {
    "C01": dict(level="exploration", technique="runtime monitoring: exact box assertions at the target/constraint boundary, filter seam and evaluation log over generated runs",
                text="Every target and constraint argument, the result and every logged row of hundreds (quick) to thousands (thorough) of real runs over all bound geometries/transforms/start points/noise modes is compared exactly with the user's box. Exploration is the right level: the property quantifies over inputs and configurations, which a monitor can only sample.",
                note=NOTE_RUN),
}
