#!/usr/bin/env python3
import json, os, glob
H = os.path.dirname(os.path.dirname(os.path.abspath(__file__)))
print("| seeded change | property | what it changes | needs to manifest | detection |")
print("|---|---|---|---|---|")
for d in sorted(glob.glob(os.path.join(H, "seeded", "*", ""))):
    d = d.rstrip("/")
    m = json.load(open(os.path.join(d, "meta.json")))
    def cl(t, n=260):
        t = " ".join(str(t).split()).replace("|", "/")
        return t if len(t) <= n else t[: n - 1] + "…"
    print(f"| `seeded/{os.path.basename(d)}` | {m.get('property')} | {cl(m.get('summary'), 300)} | {cl(m.get('needs'), 300)} | **{m['detection']['verdict']}** — {cl(m['detection']['note'], 420)} |")
