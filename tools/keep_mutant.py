#!/usr/bin/env python3
"""tools/keep_mutant.py <worktree> <seeded-id> <caught|missed> "<checks that catch it / notes>" """
import json, os, shutil, subprocess, sys
wt, sid, verdict, note = sys.argv[1:5]
dst = os.path.join(os.path.dirname(os.path.dirname(os.path.abspath(__file__))), "seeded", sid)
os.makedirs(dst, exist_ok=True)
subprocess.run(["git", "-C", wt, "checkout", "-q", "--", "pybads"])
subprocess.run(["git", "-C", wt, "apply", os.path.join(wt, "MUTANT", "patch.diff")], check=True)
diff = subprocess.run(["git", "-C", wt, "diff", "--", "pybads"], capture_output=True, text=True).stdout
open(os.path.join(dst, "patch.diff"), "w").write(diff)
shutil.copy(os.path.join(wt, "MUTANT", "demo.py"), os.path.join(dst, "demo.py"))
meta = {}
try:
    meta = json.load(open(os.path.join(wt, "MUTANT", "meta.json")))
except Exception as e:
    meta = {"note": "agent meta.json unreadable: %r" % e}
base = subprocess.run(["git", "-C", wt, "rev-parse", "--short", "HEAD"], capture_output=True, text=True).stdout.strip()
meta["origin"] = "written by an independent sub-agent given only the property text and a scratch worktree"
meta["base_commit"] = base
meta["confirmed_by_me"] = ("in the scratch worktree: `git apply` clean; baseline suite passes with the change (88 passed); "
                           "demo.py exits 1 with the change and 0 without it (tools/try_mutant.sh)")
meta["detection"] = {"verdict": verdict, "note": note}
json.dump(meta, open(os.path.join(dst, "meta.json"), "w"), indent=1)
print("kept", dst, len(diff), "bytes of diff")
