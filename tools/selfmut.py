#!/usr/bin/env python3
"""Self-test campaign: apply each planned mutant (DESIGN §3 'Mutants') to a scratch
worktree, run the property's check against it (VERIF_REPO=<worktree>), record whether
the check fires.  usage: tools/selfmut.py <worktree> [ids...]"""
import json
import os
import subprocess
import sys

HERE = os.path.dirname(os.path.dirname(os.path.abspath(__file__)))
WT = sys.argv[1]
ONLY = set(sys.argv[2:])

M = [
 # id, property, file, old, new
 ("C01-noclamp-inv", "C01", "pybads/variable_transformer/variables_transformer.py", "        x = np.minimum(\n            np.maximum(x, self.orig_lb), self.orig_ub\n        )  # Force to stay within bounds\n", "        pass\n"),
 ("C01-proj-swapped", "C01", "pybads/function_logger/constraints_check.py", "U_new = np.maximum(np.minimum(U, ub), lb)", "U_new = np.minimum(np.maximum(U, ub), lb)"),
 ("C01-poll-drop-and", "C01", "pybads/function_logger/constraints_check.py", "idx = np.any(U > ub, axis=1) | np.any(U < lb, axis=1)", "idx = np.any(U > ub, axis=1) & np.any(U < lb, axis=1)"),
 ("C01-u0-nudge-sign", "C01", "pybads/bads/bads.py", "            u0[u0 > self.upper_bounds] - optim_state[\"search_mesh_size\"]", "            u0[u0 > self.upper_bounds] + optim_state[\"search_mesh_size\"]"),
 ("C02-poll-nocons", "C02", "pybads/bads/bads.py", "                    False,\n                    self.non_box_cons,\n                )\n\n                # Add new poll points", "                    False,\n                    None,\n                )\n\n                # Add new poll points"),
 ("C02-cons-lt1", "C02", "pybads/function_logger/constraints_check.py", "idx = C <= 0", "idx = C < 1"),
 ("C02-no-postgrid-check", "C02", "pybads/bads/bads.py", "np.any(self.non_box_cons(self.var_transf.inverse_transf(u0)) > 0):", "False and np.any(self.non_box_cons(self.var_transf.inverse_transf(u0)) > 0):"),
 ("C03-poll-guard-le", "C03", "pybads/bads/bads.py", "            and self.function_logger.func_count < self.options[\"max_fun_evals\"]\n            and poll_count < self.D * 2", "            and self.function_logger.func_count <= self.options[\"max_fun_evals\"]\n            and poll_count < self.D * 2"),
 ("C03-no-reserve", "C03", "pybads/bads/bads.py", "            self.options[\"max_fun_evals\"] = (\n                self.options[\"max_fun_evals\"]\n                - self.options[\"noise_final_samples\"]\n            )", "            pass"),
 ("C03-searchcount-empty", "C03", "pybads/bads/bads.py", "        # Generate search set (normalized coordinate)\n        self.optim_state[\"search_count\"] += 1\n", "        # Generate search set (normalized coordinate)\n"),
 ("C03-msg-swap", "C03", "pybads/bads/bads.py", "msg = \"Optimization terminated: reached maximum number of iterations options['max_iter'].\"", "msg = \"Optimization terminated: reached maximum number of function evaluations options['max_fun_evals'].\""),
 ("C03-funccount-norec", "C03", "pybads/function_logger/function_logger.py", "                self.n_evals[last_idx] += 1\n                return fval_orig, last_idx", "                self.n_evals[last_idx] += 1\n                self.func_count -= 1\n                return fval_orig, last_idx"),
 ("C04-init-argmax", "C04", "pybads/bads/bads.py", "                idx_yval = np.argmin(\n                    self.function_logger.Y[: self.function_logger.Xn + 1]\n                )", "                idx_yval = np.argmax(\n                    self.function_logger.Y[: self.function_logger.Xn + 1]\n                )"),
 ("C04-search-improved-ge", "C04", "pybads/bads/bads.py", "                search_improvement > 0\n                and self.options[\"sloppy_improvement\"]", "                search_improvement >= -1e-3\n                and self.options[\"sloppy_improvement\"]"),
 ("C04-poll-best-lt", "C04", "pybads/bads/bads.py", "            if poll_improvement > poll_best_improvement:\n                u_poll_best = u_new.copy()", "            if poll_improvement > 0 and (poll_best_improvement == 0 or poll_improvement < poll_best_improvement):\n                u_poll_best = u_new.copy()"),
 ("C04-result-gp-mean", "C04", "pybads/bads/optimize_result.py", "        self[\"fval\"] = bads.fval", "        self[\"fval\"] = bads.optim_state.get(\"f_target_mu\", bads.fval)"),
 ("C05-final-at-ubest-loop", "C05", "pybads/bads/bads.py", "            self.u = self.iteration_history.get(\"u\")[min_q_beta_idx]\n            self.u_best = self.u.copy()", "            self.u_best = self.iteration_history.get(\"u\")[min_q_beta_idx].copy()"),
 ("C05-median", "C05", "pybads/bads/bads.py", "self.fval = np.mean(yval_vec).item()", "self.fval = np.median(yval_vec).item()"),
 ("C05-no-supplement", "C05", "pybads/bads/bads.py", "                if yval_vec.size == 1:\n                    yval_vec = np.vstack((yval_vec, self.yval))", "                if False:\n                    yval_vec = np.vstack((yval_vec, self.yval))"),
 ("C05-noise-test-ge", "C05", "pybads/bads/bads.py", "if np.abs(self.yval - yval_bis) > self.options[\"tol_noise\"]:", "if np.abs(self.yval - yval_bis) >= self.options[\"tol_noise\"]:"),
 ("C06-lcb-sign", "C06", "pybads/acquisition_functions/acq_fcn_lcb.py", "z = f_mu - sqrt_beta * f_s", "z = -f_mu - sqrt_beta * f_s"),
 ("C06-poll-mesh-sq", "C06", "pybads/bads/bads.py", "                    B_new * self.optim_state[\"mesh_size\"]\n                ) * gp.temporary_data[", "                    B_new * self.optim_state[\"mesh_size\"] ** 4 * 1e-3\n                ) * gp.temporary_data["),
 ("C07-no-reseed", "C07", "pybads/bads/bads.py", "        self.optim_state[\"random_seed\"] = self._init_random_seed_()", "        self.optim_state[\"random_seed\"] = self._random_seed"),
 ("C07-sobol-global", "C07", "pybads/init_functions/init_sobol.py", "    if np.all(np.isfinite(u0)):", "    if False and np.all(np.isfinite(u0)):"),
 ("C07-D-cached", "C07", "pybads/bads/options.py", "            exec(f\"{key} = {val}\", global_scope)", "            if key not in global_scope:\n                exec(f\"{key} = {val}\", global_scope)"),
 ("C08-order-le", "C08", "pybads/bads/bads.py", "            & (plausible_lower_bounds < plausible_upper_bounds)\n            & (plausible_upper_bounds <= upper_bounds)\n        )\n        if np.any(np.invert(ordidx)):\n            raise ValueError(\n                \"\"\"bads:StrictBounds: For each variable, hard and\n            plausible bounds should respect the ordering lower_bounds < plausible_lower_bounds", "            & (plausible_lower_bounds <= plausible_upper_bounds)\n            & (plausible_upper_bounds <= upper_bounds)\n        )\n        if np.any(np.invert(ordidx)):\n            raise ValueError(\n                \"\"\"bads:StrictBounds: For each variable, hard and\n            plausible bounds should respect the ordering lower_bounds < plausible_lower_bounds"),
 ("C08-no-x0-in-bounds", "C08", "pybads/bads/bads.py", "        if np.any(x0 < lower_bounds) or np.any(x0 > upper_bounds):", "        if False:"),
 ("C08-no-pl-finite", "C08", "pybads/bads/bads.py", "        if np.any(np.invert(np.isfinite(plausible_lower_bounds))) or np.any(\n            np.invert(np.isfinite(plausible_upper_bounds))\n        ):", "        if False:"),
 ("C10-penalty", "C10", "pybads/function_logger/function_logger.py", "            fun_res = self.fun(x_orig)\n", "            try:\n                fun_res = self.fun(x_orig)\n            except ZeroDivisionError:\n                fun_res = (1e6, 1.0) if self.he_noise_flag else 1e6\n"),
 ("C10-count-before-validate", "C10", "pybads/function_logger/function_logger.py", "        wrong_format_target_function = False\n        try:", "        wrong_format_target_function = False\n        self.func_count += 1\n        try:"),
 ("C10-nan-replaced", "C10", "pybads/function_logger/function_logger.py", "        # Check function value\n        if np.any(\n            not np.isscalar(fval_orig)", "        if np.isscalar(fval_orig) and isinstance(fval_orig, float) and fval_orig != fval_orig:\n            fval_orig = 1e10\n        # Check function value\n        if np.any(\n            not np.isscalar(fval_orig)"),
 ("C11-log-gt10", "C11", "pybads/variable_transformer/variables_transformer.py", "(self.pub[:, i] / self.plb[:, i] >= 10).item()", "(self.pub[:, i] / self.plb[:, i] > 10).item()"),
 ("C11-noclamp-fwd", "C11", "pybads/variable_transformer/variables_transformer.py", "        y = np.minimum(\n            np.maximum(y, self.lb), self.ub\n        )  # Force to stay within bounds\n", ""),
 ("C11-mask-inverted", "C11", "pybads/variable_transformer/variables_transformer.py", "            g = lambda x: z(x) + zlog(x)\n            ginv = lambda y: maskindex(\n                gamma * y + mu, ~self.apply_log_t\n            )", "            g = lambda x: z(x) + zlog(x)\n            ginv = lambda y: maskindex(\n                gamma * y + mu, self.apply_log_t\n            )"),
 ("C12-nevals-norec", "C12", "pybads/function_logger/function_logger.py", "                self.n_evals[last_idx] += 1\n                return fval_orig, last_idx", "                return fval_orig, last_idx"),
 ("C12-grow-zeros", "C12", "pybads/function_logger/function_logger.py", "        self.Y = np.append(self.Y, np.full([resize_amount, 1], np.nan), axis=0)", "        self.Y = np.append(self.Y, np.zeros([resize_amount, 1]), axis=0)"),
 ("C12-funccount-recorded-only", "C12", "pybads/function_logger/function_logger.py", "            record_duplicate_data=record_duplicate_data,\n        )\n        self.func_count += 1", "            record_duplicate_data=record_duplicate_data,\n        )\n        self.func_count += 1 if record_duplicate_data else 0"),
 ("C13-swap", "C13", "pybads/bads/bads.py", "            # Failed poll, decrease mesh size\n            self.mesh_size_integer -= 1", "            # Failed poll, decrease mesh size\n            self.mesh_size_integer -= 2"),
 ("C13-nocap", "C13", "pybads/bads/bads.py", "            self.mesh_size_integer = np.minimum(\n                self.mesh_size_integer + 1, self.options[\"max_poll_grid_number\"]\n            )", "            self.mesh_size_integer = self.mesh_size_integer + 1"),
 ("C13-search-mesh", "C13", "pybads/bads/bads.py", "            self.reset_gp = True\n\n        else:\n            search_status = \"failure\"", "            self.reset_gp = True\n            if is_search_success and self.mesh_size_integer < 0:\n                self.mesh_size_integer += 1\n\n        else:\n            search_status = \"failure\""),
 ("C14-tril0", "C14", "pybads/poll/poll_mads_2n.py", "D = np.tril(D, -1)", "D = np.tril(D, 0)"),
 ("C14-diag-1", "C14", "pybads/poll/poll_mads_2n.py", "(rnd.randint(1, 3, dim_x) - 1.5)", "(rnd.randint(1, 3, dim_x) - 1.0)"),
 ("C14-vstackDD", "C14", "pybads/poll/poll_mads_2n.py", "B_new = np.vstack((D, -D))", "B_new = np.vstack((D, D))"),
 ("C14-no-delete", "C14", "pybads/bads/bads.py", "            u_poll = np.delete(u_poll, index_acq, axis=0)", "            u_poll = np.delete(u_poll, index_acq, axis=0) if poll_count % 2 == 0 else u_poll"),
 ("C15-sort-desc", "C15", "pybads/bads/gaussian_process_train.py", "    sort_idx = np.argsort(dist)  # Ascending sort", "    sort_idx = np.argsort(-dist)  # Ascending sort"),
 ("C15-unscaled", "C15", "pybads/bads/gaussian_process_train.py", "        u,\n        gp.temporary_data[\"len_scale\"],\n        optim_state[\"lb\"],", "        u,\n        1.0,\n        optim_state[\"lb\"],"),
 ("C15-ignore-ntrainmax", "C15", "pybads/bads/gaussian_process_train.py", "    ntrain = np.minimum(options[\"n_train_max\"], np.sum(dist <= radius**2))", "    ntrain = np.sum(dist <= radius**2)"),
 ("C15-lcb-t", "C15", "pybads/acquisition_functions/acq_fcn_lcb.py", "    t = func_count + 1", "    t = func_count"),
 ("C16-no-except", "C16", "pybads/bads/gaussian_process_train.py", "        except np.linalg.LinAlgError:\n            # handle", "        except ZeroDivisionError:\n            # handle"),
 ("C16-init-noretry", "C16", "pybads/bads/gaussian_process_train.py", "        except np.linalg.LinAlgError:\n            training_failures += 1", "        except ZeroDivisionError:\n            training_failures += 1"),
 ("C17-nounique", "C17", "pybads/function_logger/constraints_check.py", "    U_new = U_new[np.sort(idx_sort), :]\n", "    pass\n"),
 ("C17-noproj", "C17", "pybads/function_logger/constraints_check.py", "        U_new = np.maximum(np.minimum(U, ub), lb)", "        U_new = U.copy()"),
 ("C17-idx-inverted", "C17", "pybads/function_logger/constraints_check.py", "        U_new = U[~idx].copy()", "        U_new = U[idx].copy()"),
 ("C18-argsort-desc", "C18", "pybads/search/es_search.py", "            z_idx = np.argsort(z_candidates)", "            z_idx = np.argsort(-z_candidates)"),
 ("C18-no-gamma-floor", "C18", "pybads/search/search_hedge.py", "        self.prob = self.prob * (1 - self.n_funs * self.gamma) + self.gamma", "        self.prob = self.prob * (1 - self.n_funs * self.gamma)"),
 ("C18-eval-top2", "C18", "pybads/bads/bads.py", "            y_search, f_sd_search, idx = self.function_logger(u_search)\n", "            y_search, f_sd_search, idx = self.function_logger(u_search)\n            if len(u_search_set) > 1:\n                self.function_logger(u_search_set[1 - index_acq])\n"),
 ("C19-yval-before-update", "C19", "pybads/bads/bads.py", "        self.u_best = u_new.copy()\n        self.yval = yval_new", "        self.u_best = u_new.copy()\n        self.yval = yval_new if self.optim_state[\"uncertainty_handling_level\"] == 0 else fval_new"),
 ("C19-shallow-result", "C19", "pybads/bads/optimize_result.py", "            dict.__setitem__(self, key, copy.deepcopy(val))", "            dict.__setitem__(self, key, val)"),
 ("C19-problem-type", "C19", "pybads/bads/optimize_result.py", "            np.all(np.isinf(bads.lower_bounds))\n            and np.all(np.isinf(bads.upper_bounds))", "            np.any(np.isinf(bads.lower_bounds))\n            and np.any(np.isinf(bads.upper_bounds))"),
 ("C20-no-user-guard", "C20", "pybads/bads/options.py", "            if key not in self.get(\"useroptions\") and key != \"useroptions\":", "            if key != \"useroptions\" and not (key in self.get(\"useroptions\") and options_path.endswith(\"basic_bads_options.ini\")):"),
 ("C20-skip-advanced-validate", "C20", "pybads/bads/bads.py", "        self.options.validate_option_names([basic_path, advanced_path])", "        self.options.validate_option_names([basic_path, advanced_path]) if options is None else None"),
 ("C20-alias-user-dict", "C20", "pybads/bads/bads.py", "        self.non_box_cons = non_box_cons\n", "        self.non_box_cons = non_box_cons\n        if options is not None:\n            options.setdefault(\"display\", \"iter\")\n"),

 ("C01-lbsearch-nudge-sign", "C01", "pybads/bads/bads.py", "            lb_search[lb_search < lb] + self.optim_state[\"search_mesh_size\"]", "            lb_search[lb_search < lb] - self.optim_state[\"search_mesh_size\"]"),
 ("C01-logger-passes-u", "C01", "pybads/function_logger/function_logger.py", "            fun_res = self.fun(x_orig)\n", "            fun_res = self.fun(x_orig if self.func_count % 7 else x)\n"),
 ("C03-maxiter-gt", "C03", "pybads/bads/bads.py", "            if poll_iteration >= self.options[\"max_iter\"] - 1:", "            if poll_iteration > self.options[\"max_iter\"] - 1:"),
 ("C03-tolmesh-le", "C03", "pybads/bads/bads.py", "            if self.optim_state[\"mesh_size\"] < self.optim_state[\"tol_mesh\"]:", "            if self.optim_state[\"mesh_size\"] <= 2 * self.optim_state[\"tol_mesh\"]:"),
 ("C03-budget-gt", "C03", "pybads/bads/bads.py", "                self.function_logger.func_count\n                >= self.options[\"max_fun_evals\"]\n            ):\n                is_finished = True", "                self.function_logger.func_count\n                > self.options[\"max_fun_evals\"]\n            ):\n                is_finished = True"),
 ("C05-reserve-ignores-count", "C05", "pybads/bads/bads.py", "                self.options[\"max_fun_evals\"]\n                - self.function_logger.func_count,\n            )", "                self.options[\"max_fun_evals\"],\n            )"),
 ("C05-sem-var", "C05", "pybads/bads/bads.py", "self.fsd = (np.std(yval_vec) / np.sqrt(yval_vec.size)).item()", "self.fsd = (np.var(yval_vec) / np.sqrt(yval_vec.size)).item()"),
 ("C12-xmaxidx-stuck", "C12", "pybads/function_logger/function_logger.py", "            self.X_max_idx = np.minimum(self.X_max_idx + 1, self.X.shape[0])", "            self.X_max_idx = np.minimum(self.X_max_idx + 1, self.cache_size - 1)"),
 ("C12-yorig-merged", "C12", "pybads/function_logger/function_logger.py", "                    self.S[idx] = 1 / np.sqrt(tau_n + tau_1)", "                    self.S[idx] = 1 / np.sqrt(tau_n + tau_1)\n                    self.Y_orig[idx] = self.Y[idx]"),
 ("C13-accel-ge", "C13", "pybads/bads/bads.py", "                and iter > self.options[\"accelerate_mesh_steps\"]", "                and iter >= self.options[\"accelerate_mesh_steps\"] - 1"),
 ("C13-quarter-when-improving", "C13", "pybads/bads/bads.py", "                    self.f_q_historic_improvement < self.options[\"tol_fun\"]\n                ):  # or", "                    self.f_q_historic_improvement > self.options[\"tol_fun\"]\n                ):  # or"),
 ("C14-pollcount-le", "C14", "pybads/bads/bads.py", "            and poll_count < self.D * 2\n        ):", "            and poll_count <= self.D * 2\n        ):"),
 ("C15-radius-not-squared", "C15", "pybads/bads/gaussian_process_train.py", "np.sum(dist <= radius**2))", "np.sum(dist <= radius))"),
 ("C15-ntrain-min-ignored", "C15", "pybads/bads/gaussian_process_train.py", "            options[\"n_train_min\"],\n            options[\"n_train_max\"] - options[\"buffer_ntrain\"],", "            1,\n            options[\"n_train_max\"] - options[\"buffer_ntrain\"],"),
 ("C15-fevals-sd-not-squared", "C15", "pybads/bads/gaussian_process_train.py", "        s2 = function_logger.S[function_logger.X_flag] ** 2", "        s2 = function_logger.S[function_logger.X_flag]"),
 ("C18-hedge-choice-le", "C18", "pybads/search/search_hedge.py", "        self.prob = self.prob / np.sum(\n            np.exp(self.beta * (self.g - np.max(self.g)))\n        )", "        self.prob = self.prob / np.sum(\n            np.exp(self.beta * (self.g - np.min(self.g)))\n        )"),
 ("C18-es-keeps-worst", "C18", "pybads/search/es_search.py", "        return us[0], z[0]\n", "        return us[-1], z[-1]\n"),
 ("C19-record-x-from-ubest-stale", "C19", "pybads/bads/bads.py", "                    self.var_transf.inverse_transf(self.u.flatten()),\n                    poll_iteration,", "                    self.var_transf.inverse_transf(self.optim_state[\"u\"].flatten()),\n                    poll_iteration,"),
 ("C19-funccount-record-minus1", "C19", "pybads/bads/bads.py", "                    \"func_count\",\n                    self.function_logger.func_count,\n                    poll_iteration,", "                    \"func_count\",\n                    self.function_logger.func_count + 1,\n                    poll_iteration,"),
 ("C20-validate-basic-only", "C20", "pybads/bads/options.py", "        for options_path in options_paths:\n            file_option_names.update(", "        for options_path in options_paths[-1:]:\n            file_option_names.update("),
 ("C16-update-fallback-removed", "C16", "pybads/bads/gaussian_process_train.py", "    try:\n        gp.update(hyp=hyp_gp)\n    except np.linalg.LinAlgError:", "    try:\n        gp.update(hyp=hyp_gp)\n    except ZeroDivisionError:"),
 ("C02-final-noise-no-cons", "C02", "pybads/bads/bads.py", "            self.u = self.iteration_history.get(\"u\")[min_q_beta_idx]\n            self.u_best = self.u.copy()", "            self.u = self.iteration_history.get(\"u\")[min_q_beta_idx] + (self.mesh_size if self.non_box_cons is not None else 0.0)\n            self.u_best = self.u.copy()"),

 ("C15-refpoint-stale", "C15", "pybads/bads/bads.py", "                gp, gp_exit_flag = local_gp_fitting(\n                    gp,\n                    self.u,\n                    self.function_logger,\n                    self.options,\n                    self.optim_state,\n                    self.iteration_history,\n                    refit_flag,\n                )\n                if refit_flag:\n                    self.gp_refitted_flag = True\n                self.gp_exit_flag = np.minimum(self.gp_exit_flag, gp_exit_flag)\n\n            # Update Target from GP prediction\n            f_target_mu, f_target_s, f_target = self._get_target_from_gp_(\n                u_poll_best", "                gp, gp_exit_flag = local_gp_fitting(\n                    gp,\n                    self.optim_state[\"usuccess\"],\n                    self.function_logger,\n                    self.options,\n                    self.optim_state,\n                    self.iteration_history,\n                    refit_flag,\n                )\n                if refit_flag:\n                    self.gp_refitted_flag = True\n                self.gp_exit_flag = np.minimum(self.gp_exit_flag, gp_exit_flag)\n\n            # Update Target from GP prediction\n            f_target_mu, f_target_s, f_target = self._get_target_from_gp_(\n                u_poll_best"),

 ("C09-empty-search-improves", "C09", "pybads/bads/bads.py", "            is_search_improved = False\n            is_search_success = False\n\n        # A search improvement implies", "            pass\n\n        # A search improvement implies"),
 ("C09-hpd-empty", "C09", "pybads/bads/gaussian_process_train.py", "    if hpd_X.shape[0] == 0:\n", "    if False:\n"),
 ("C09-pollmult-int", "C09", "pybads/bads/bads.py", "        self.options[\"poll_mesh_multiplier\"] = float(\n            self.options[\"poll_mesh_multiplier\"]\n        )\n", ""),
 ("C09-stn-implicit-false", "C09", "pybads/bads/bads.py", "            and self.options[\"uncertainty_handling\"] is None\n        ):\n            self.options[\"uncertainty_handling\"] = True", "            and self.options[\"uncertainty_handling\"] is None\n        ):\n            self.options[\"uncertainty_handling\"] = False"),
 ("C09-sloppy-copy", "C09", "pybads/bads/bads.py", "            ] = self.sufficient_improvement\n", "            ] = self.sufficient_improvement.copy()\n"),
 ("C09-uncertain-incumbent-float", "C09", "pybads/bads/bads.py", "            f_target_mu = np.atleast_1d(self.optim_state[\"fval\"])\n            f_target_s = 0", "            f_target_mu = self.optim_state[\"fval\"]\n            f_target_s = 0"),
 ("C09-covsigma-zero", "C09", "pybads/bads/gaussian_process_train.py", "        if dist.size > 0 and np.max(dist) > np.min(dist):", "        if dist.size > 0:"),
 ("C01-covsigma-zero", "C01", "pybads/bads/gaussian_process_train.py", "        if dist.size > 0 and np.max(dist) > np.min(dist):", "        if dist.size > 0:"),
 ("C18-always-first-strategy", "C18", "pybads/search/search_hedge.py", "        self.chosen_hedge = np.argwhere(rand_uni < np.cumsum(self.prob))[0]", "        self.chosen_hedge = np.argwhere(rand_uni * 0.0 < np.cumsum(self.prob))[0]"),
]


def sh(cmd, **kw):
    return subprocess.run(cmd, shell=True, capture_output=True, text=True, **kw)


res = []
for mid, prop, f, old, new in M:
    if ONLY and mid not in ONLY and prop not in ONLY:
        continue
    sh(f"git -C {WT} checkout -- .")
    p = os.path.join(WT, f)
    s = open(p).read()
    if s.count(old) != 1:
        print(f"{mid}: PATTERN-NOT-UNIQUE ({s.count(old)})", flush=True)
        res.append({"id": mid, "status": "pattern"})
        continue
    open(p, "w").write(s.replace(old, new))
    r = sh(f"cd {HERE} && VERIF_REPO={WT} ./check {prop} quick", timeout=1800)
    keys = sorted(set(l.split("key=")[1].split(" ")[0] for l in r.stdout.splitlines() if "key=" in l))
    verdict = "CAUGHT" if r.returncode == 1 else ("INCONCLUSIVE" if r.returncode == 2 else "MISSED")
    print(f"{mid}: {verdict} rc={r.returncode} {keys[:4]}", flush=True)
    if verdict != "CAUGHT":
        print("   ", [l for l in r.stdout.splitlines() if l.startswith(("[", "INCONCL"))][:2], flush=True)
    res.append({"id": mid, "property": prop, "verdict": verdict, "keys": keys})
sh(f"git -C {WT} checkout -- .")
json.dump(res, open(os.path.join(HERE, ".work_selfmut.json"), "w"), indent=1)
