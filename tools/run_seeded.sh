#!/bin/bash
# Apply every seeded change to /repo in turn (git apply), run the property's quick check, undo (git checkout -- .).
# Never run while another check uses /repo.  Writes seeded/RESULTS.md
cd /verif
out=seeded/RESULTS.md
echo "# seeded changes applied to /repo one at a time (git -C /repo apply; ./check <P> quick; git -C /repo checkout -- .)" > $out
echo "" >> $out; echo "| seeded | property | check exit | violation keys reported |" >> $out; echo "|---|---|---|---|" >> $out
for d in seeded/*/; do
  id=$(basename $d); prop=${id%%-*}
  [ -f $d/patch.diff ] || continue
  if ! git -C /repo diff --quiet; then echo "/repo is dirty, abort"; exit 3; fi
  git -C /repo apply $PWD/$d/patch.diff || { echo "| $id | $prop | patch does not apply | |" >> $out; continue; }
  res=$(./check $prop quick 2>&1); rc=$?
  git -C /repo checkout -- .
  keys=$(echo "$res" | grep -o "key=[^ ]*" | sort | uniq -c | sort -rn | head -4 | awk '{print $2" x"$1}' | tr '\n' ' ')
  echo "| $id | $prop | $rc | $keys |" >> $out
  echo "$id rc=$rc $keys"
done
git -C /repo status --short
