#!/bin/bash
# usage: tools/run_seeded.sh [seeded-id ...]
# Apply every (or the named) seeded change to /repo in turn (git apply), run the property's quick check, undo
# (git checkout -- .).  Never run while another check uses /repo.  Each result goes to seeded/<id>/result.txt;
# seeded/RESULTS.md is regenerated from all of them.
cd /verif
ids="$@"; [ -z "$ids" ] && ids=$(ls -d seeded/*/ | xargs -n1 basename)
for id in $ids; do
  d=seeded/$id; prop=${id%%-*}
  [ -f $d/patch.diff ] || continue
  if ! git -C /repo diff --quiet; then echo "/repo is dirty, abort"; exit 3; fi
  if ! git -C /repo apply $PWD/$d/patch.diff 2>/dev/null; then
    # the patch was written against an earlier commit: let git merge it (3-way) and leave only the working tree changed
    if ! git -C /repo apply --3way $PWD/$d/patch.diff >/dev/null 2>&1; then git -C /repo checkout -- . ; git -C /repo reset -q; echo "$id | $prop | patch does not apply | " > $d/result.txt; echo "$id patch does not apply"; continue; fi
    git -C /repo reset -q
  fi
  res=$(./check $prop quick 2>&1); rc=$?
  git -C /repo checkout -- .
  keys=$(echo "$res" | grep -o "key=[^ ]*" | sort | uniq -c | sort -rn | head -4 | awk '{print $2" x"$1}' | tr '\n' ' ')
  echo "$id | $prop | $rc | $keys" > $d/result.txt
  echo "$id rc=$rc $keys"
done
out=seeded/RESULTS.md
echo "# seeded changes applied to /repo one at a time (git -C /repo apply; ./check <P> quick; git -C /repo checkout -- .)" > $out
echo "" >> $out; echo "| seeded | property | check exit | violation keys reported |" >> $out; echo "|---|---|---|---|" >> $out
for d in seeded/*/; do [ -f $d/result.txt ] && echo "| $(cat $d/result.txt) |" >> $out; done
git -C /repo status --short
